//! C14 (no input makes deserialisation panic) — the long-number shapes around the 64-bit significand overflow.
//!
//! A decimal whose significand leaves u64 while the FRACTION is being read goes through `parse_decimal_overflow`
//! (float_roundtrip: the digits collected so far are re-padded into the scratch buffer; default build: the remaining digits
//! are skipped). Where that happens depends on the first 19 significant digits (`u64::MAX / 10 = 1844674407370955161`, next
//! digit > 5) and on how many fractional zeros precede them. Family (tags `ovf-*`):
//! k leading fractional zeros (0..=25) x 19 / 20 / 21 / 25 / 40 / 800 significant digits x ten 19-digit prefixes just below / at /
//! just above `1844674407370955161|2`, `9999…`, `1000…` x integer part `0` / non-zero x exponent suffix x sign x position
//! (top level, array element, object value), into `Value` and `IgnoredAny` (ops pv / pi: three sources, machine model) and into
//! typed targets f64, f32, u64, i64, Vec<f64>, Vec<f32>, BTreeMap<String, f64> (op tt: typed model, rotating sources; a `PANIC`
//! observation is a C14 violation in both). The quick tier samples the variations and the 800-digit literals (see `run`).
use crate::common::*;
use crate::obs::*;
use crate::schema::*;

const PREFIXES: [&str; 10] = ["1844674407370955159", "1844674407370955160", "1844674407370955161", "1844674407370955162", "1844674407370955163",
    "1844674407370955170", "9999999999999999999", "1000000000000000000", "2718281828459045235", "1844674407370955161"];
const LENS: [usize; 6] = [19, 20, 21, 25, 40, 800];
const EXPS: [&str; 7] = ["", "e5", "E-7", "e+30", "e-320", "E400", "e-2147483647"];

/// `n >= 19` significant digits: the prefix, then a 20th digit from the boundary set (5 | 6 decide the overflow test after
/// `…161`), then a fixed pattern
fn sig_digits(prefix: &str, n: usize, phase: usize) -> String {
    let mut s = prefix.to_string();
    let twentieth = [b'5', b'6', b'0', b'9', b'1'][phase % 5];
    while s.len() < n { let k = s.len(); s.push(if k == 19 { twentieth } else { b"5904523536028747135266249775724709369995"[(k + phase) % 40] } as char); }
    s
}

fn wrap(lit: &str, ctx: usize) -> String {
    match ctx % 4 { 0 => lit.to_string(), 1 => format!("[{}]", lit), 2 => format!("[1, {} ,2]", lit), _ => format!("{{\"k\":{}}}", lit) }
}

fn emit_all(sink: &mut Sink, cfg: &str, doc: &str, ctx: usize, r: &mut Rng, tag: &str, rot: usize, full: bool) {
    let b = doc.as_bytes();
    crate::c01::emit(sink, cfg, b, r, tag);
    let srcs = ["str", "slice", "reader"];
    let tt = |sink: &mut Sink, s: Schema, src: &str, r: &mut Rng| { let se = enc_schema(&s); crate::typed::emit_tt(sink, cfg, &s, &se, src, b, r, tag); };
    match ctx % 4 {
        0 => {
            if full { for src in srcs { tt(sink, Schema::F64, src, r); } } else { tt(sink, Schema::F64, srcs[(rot + 1) % 3], r); }
            tt(sink, Schema::F32, srcs[rot % 3], r);
            if full || rot % 2 == 0 { tt(sink, Schema::Int(IntTy::U64), srcs[(rot + 1) % 3], r); }
            if full || rot % 2 == 1 { tt(sink, Schema::Int(IntTy::I64), srcs[(rot + 2) % 3], r); }
        }
        1 | 2 => {
            tt(sink, Schema::Seq(Box::new(Schema::F64)), srcs[rot % 3], r);
            tt(sink, Schema::Seq(Box::new(Schema::F32)), srcs[(rot + 1) % 3], r);
            if full { tt(sink, Schema::Seq(Box::new(Schema::Any)), srcs[(rot + 2) % 3], r); }
        }
        _ => {
            tt(sink, Schema::Map(KeyKind::Str, Box::new(Schema::F64)), srcs[rot % 3], r);
            if full { tt(sink, Schema::Map(KeyKind::Str, Box::new(Schema::Ignored)), srcs[(rot + 1) % 3], r); }
        }
    }
}

pub fn run(sink: &mut Sink, thorough: bool, seed: u64) {
    let mut r = Rng::new(seed ^ 0xc14_0f10);
    let cfg = cfg_tag();
    let mut rot = 0usize;
    for k in 0..=25usize {
        for n in LENS {
            for (pi, prefix) in PREFIXES.iter().enumerate() {
                rot += 1;
                // quick tier: the 800-digit literals (the list-based models are slow on them) with one rotating prefix per k
                if !thorough && n == 800 && pi != k % PREFIXES.len() { continue; }
                // ... and under float_roundtrip (exact big-number arithmetic in the model: ~0.2 s per line) for k = 1 and 20 only
                if !thorough && n == 800 && cfg!(feature = "fr") && k != 1 && k != 20 { continue; }
                let digits = sig_digits(prefix, n, rot + pi);
                let zeros = "0".repeat(k);
                // the core: 0.<k zeros><digits>
                let lit = format!("0.{}{}", zeros, digits);
                emit_all(sink, &cfg, &lit, 0, &mut r, "ovf-core", rot, thorough);
                // one variation per core literal (quick: every second), every dimension rotating
                let ip = ["7", "123456", "0", "0"][rot % 4];
                let exp = EXPS[(rot / 2) % EXPS.len()];
                let sign = if rot % 3 == 0 { "-" } else { "" };
                let ctx = rot / 3;
                if thorough || rot % 2 == 0 {
                    let lit2 = format!("{}{}.{}{}{}", sign, ip, zeros, digits, exp);
                    emit_all(sink, &cfg, &wrap(&lit2, ctx), ctx, &mut r, "ovf-var", rot, thorough);
                }
                if thorough || (n <= 21 && rot % 3 == 1) {
                    // the digits straddling the point: part of them as integer part
                    let cut = 1 + rot % 18;
                    let lit3 = format!("{}{}.{}{}{}", sign, &digits[..cut], zeros, &digits[cut..], EXPS[rot % EXPS.len()]);
                    emit_all(sink, &cfg, &wrap(&lit3, ctx + 1), ctx + 1, &mut r, "ovf-straddle", rot, thorough);
                }
            }
        }
    }
    for i in 0..(if thorough { 20000 } else { 250 }) {
        let k = r.below(26);
        let n = if r.chance(1, 25) { if !thorough && cfg!(feature = "fr") { 44 + r.below(40) } else { 100 + r.below(700) } } else { 19 + r.below(24) };
        let prefix = if r.chance(1, 2) { PREFIXES[r.below(PREFIXES.len())].to_string() } else {
            // a random 19-digit prefix near the boundary: 1844674407370955000 ..= 1844674407370955399
            let base = 1844674407370955000u64 + r.below(400) as u64; base.to_string() };
        let digits = sig_digits(&prefix, n, r.below(5));
        let ip = if r.chance(2, 3) { "0".to_string() } else { (r.next() % 100000).to_string() };
        let lit = format!("{}{}.{}{}{}", if r.chance(1, 4) { "-" } else { "" }, ip, "0".repeat(k), digits, EXPS[r.below(EXPS.len())]);
        let ctx = r.below(4);
        emit_all(sink, &cfg, &wrap(&lit, ctx), ctx, &mut r, "ovf-rand", i, thorough);
    }
}
