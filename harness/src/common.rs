//! Shared plumbing: PRNG, hex, wire encoding of `Value`, case emission, statistics.
#![allow(dead_code)]
use serde_json::{Map, Number, Value};
use std::collections::BTreeMap;
use std::io::Write;

/// splitmix64: every random choice of a run derives from one state seeded by VERIF_SEED.
pub struct Rng(pub u64);
impl Rng {
    pub fn new(seed: u64) -> Rng { Rng(seed.wrapping_mul(0x9E3779B97F4A7C15) ^ 0xD1B54A32D192ED03) }
    pub fn next(&mut self) -> u64 {
        self.0 = self.0.wrapping_add(0x9E3779B97F4A7C15);
        let mut z = self.0;
        z = (z ^ (z >> 30)).wrapping_mul(0xBF58476D1CE4E5B9);
        z = (z ^ (z >> 27)).wrapping_mul(0x94D049BB133111EB);
        z ^ (z >> 31)
    }
    pub fn below(&mut self, n: usize) -> usize { if n == 0 { 0 } else { (self.next() % n as u64) as usize } }
    pub fn chance(&mut self, num: u64, den: u64) -> bool { self.next() % den < num }
    pub fn pick<'a, T>(&mut self, xs: &'a [T]) -> &'a T { &xs[self.below(xs.len())] }
}

pub fn hex(bs: &[u8]) -> String {
    const H: &[u8; 16] = b"0123456789abcdef";
    let mut s = String::with_capacity(bs.len() * 2);
    for b in bs { s.push(H[(b >> 4) as usize] as char); s.push(H[(b & 15) as usize] as char); }
    s
}
/// a field is never empty on the wire: `-` is the empty byte string
pub fn hexf(bs: &[u8]) -> String { if bs.is_empty() { "-".to_string() } else { hex(bs) } }

pub fn unhex(s: &str) -> Vec<u8> {
    if s == "-" { return vec![]; }
    let b = s.as_bytes();
    (0..b.len() / 2).map(|i| {
        let h = |c: u8| match c { b'0'..=b'9' => c - b'0', b'a'..=b'f' => c - b'a' + 10, _ => c - b'A' + 10 };
        h(b[2 * i]) * 16 + h(b[2 * i + 1])
    }).collect()
}

pub fn enc_number(n: &Number, out: &mut String) {
    #[cfg(feature = "ap")]
    {
        out.push('l'); out.push_str(&hex(n.to_string().as_bytes())); out.push(';');
    }
    #[cfg(not(feature = "ap"))]
    {
        if let Some(u) = n.as_u64() { out.push_str(&format!("i{};", u)); }
        else if let Some(i) = n.as_i64() { out.push_str(&format!("j{};", (i as i128).unsigned_abs())); }
        else { out.push_str(&format!("d{:016x}", n.as_f64().unwrap().to_bits())); }
    }
}

/// wire encoding of a Value (objects in iteration order) — see lean/SJ/Spec/Value.lean
pub fn enc_value(v: &Value, out: &mut String) {
    match v {
        Value::Null => out.push('n'),
        Value::Bool(true) => out.push('t'),
        Value::Bool(false) => out.push('f'),
        Value::Number(n) => enc_number(n, out),
        Value::String(s) => { out.push('s'); out.push_str(&hex(s.as_bytes())); out.push(';'); }
        Value::Array(xs) => { out.push_str(&format!("a{};", xs.len())); for x in xs { enc_value(x, out); } }
        Value::Object(m) => {
            out.push_str(&format!("o{};", m.len()));
            for (k, x) in m { out.push('s'); out.push_str(&hex(k.as_bytes())); out.push(';'); enc_value(x, out); }
        }
    }
}
pub fn enc(v: &Value) -> String { let mut s = String::new(); enc_value(v, &mut s); s }

/// Output sink: case lines to stdout, statistics to the stats file.
pub struct Sink {
    pub out: std::io::BufWriter<std::io::Stdout>,
    pub cases: u64,
    pub hist: BTreeMap<String, u64>,
    pub samples: Vec<String>,
    pub distinct: std::collections::HashSet<u64>,
    pub nontrivial: u64,
}
impl Sink {
    pub fn new() -> Sink {
        Sink { out: std::io::BufWriter::with_capacity(1 << 20, std::io::stdout()), cases: 0, hist: BTreeMap::new(),
               samples: vec![], distinct: Default::default(), nontrivial: 0 }
    }
    /// emit one case: `op args… => obs`; `tag` feeds the distribution histogram;
    /// `nontrivial` says whether the case counts as non-trivial by the property's rule.
    pub fn case(&mut self, op: &str, args: &[&str], obs: &str, tag: &str, nontrivial: bool) {
        let mut line = String::with_capacity(64);
        line.push_str(op);
        for a in args { line.push(' '); line.push_str(a); }
        if nontrivial {
            use std::hash::{Hash, Hasher};
            let mut h = std::collections::hash_map::DefaultHasher::new();
            line.hash(&mut h);
            if self.distinct.insert(h.finish()) { self.nontrivial += 1; }
        }
        line.push_str(" => "); line.push_str(obs);
        if self.samples.len() < 12 && (self.cases % 997 == 0 || self.samples.len() < 3) && line.len() < 400 { self.samples.push(line.clone()); }
        self.cases += 1;
        *self.hist.entry(tag.to_string()).or_insert(0) += 1;
        let _ = self.out.write_all(line.as_bytes());
        let _ = self.out.write_all(b"\n");
    }
    pub fn finish(mut self, stats_path: Option<&str>) {
        let _ = self.out.flush();
        if let Some(p) = stats_path {
            let mut m = Map::new();
            m.insert("cases".into(), Value::from(self.cases));
            m.insert("distinct_nontrivial".into(), Value::from(self.nontrivial));
            m.insert("histogram".into(), Value::Object(self.hist.iter().map(|(k, v)| (k.clone(), Value::from(*v))).collect()));
            m.insert("samples".into(), Value::Array(self.samples.iter().map(|s| Value::from(s.clone())).collect()));
            std::fs::write(p, Value::Object(m).to_string()).expect("write stats");
        }
    }
}

/// key pool used by value generators: escape-relevant, index-like and plain keys
pub const KEYS: &[&str] = &["", "a", "b", "~", "/", "~0", "~1", "a/b", "m~n", "0", "1", "01", "-", "+1", "~01", "~10", "é", "k\"q", "10", "00"];

pub fn gen_number(r: &mut Rng) -> Number {
    match r.below(6) {
        0 => Number::from(r.below(20) as u64),
        1 => Number::from(-(r.below(20) as i64) - 1),
        2 => Number::from(u64::MAX - r.below(3) as u64),
        3 => Number::from(i64::MIN + r.below(3) as i64),
        4 => Number::from_f64([0.5, -0.0, 1.5e300, 1e-7, 123456.789, 2.0][r.below(6)]).unwrap(),
        _ => Number::from(r.next() >> (r.below(64) as u32)),
    }
}

pub fn gen_string(r: &mut Rng) -> String {
    if r.chance(1, 2) { return r.pick(KEYS).to_string(); }
    let n = r.below(6);
    (0..n).map(|_| *r.pick(&['a', 'b', '/', '~', '0', '1', '"', '\\', '\n', 'é', '\u{10348}', ' ', '\u{ffff}', '\u{e000}', '\u{1f600}'])).collect()
}

pub fn gen_value(r: &mut Rng, depth: usize) -> Value {
    let k = if depth == 0 { r.below(4) } else { r.below(7) };
    match k {
        0 => Value::Null,
        1 => Value::Bool(r.chance(1, 2)),
        2 => Value::Number(gen_number(r)),
        3 => Value::String(gen_string(r)),
        4 | 5 => {
            let n = if r.chance(1, 8) { 10 + r.below(4) } else { r.below(4) };
            Value::Array((0..n).map(|_| gen_value(r, depth - 1)).collect())
        }
        _ => {
            let n = r.below(5);
            let mut m = Map::new();
            for _ in 0..n { let k = gen_string(r); let v = gen_value(r, depth - 1); m.insert(k, v); }
            Value::Object(m)
        }
    }
}

/// decode the wire format back into a Value (for replays)
pub fn dec_value(s: &str) -> Value {
    fn semi<'a>(b: &'a [u8], i: &mut usize) -> &'a [u8] { let st = *i; while b[*i] != b';' { *i += 1; } let r = &b[st..*i]; *i += 1; r }
    fn go(b: &[u8], i: &mut usize) -> Value {
        let c = b[*i]; *i += 1;
        match c {
            b'n' => Value::Null, b't' => Value::Bool(true), b'f' => Value::Bool(false),
            b'i' => { let d = semi(b, i); Value::from(std::str::from_utf8(d).unwrap().parse::<u64>().unwrap()) }
            b'j' => { let d = semi(b, i); let m = std::str::from_utf8(d).unwrap().parse::<u128>().unwrap(); Value::from((-(m as i128)) as i64) }
            b'd' => { let h = std::str::from_utf8(&b[*i..*i + 16]).unwrap(); *i += 16; Value::from(f64::from_bits(u64::from_str_radix(h, 16).unwrap())) }
            b'l' => { let d = semi(b, i); let t = unhex(std::str::from_utf8(d).unwrap()); serde_json::from_slice(&t).unwrap() }
            b's' => { let d = semi(b, i); Value::String(String::from_utf8(unhex(std::str::from_utf8(d).unwrap())).unwrap()) }
            b'a' => { let n: usize = std::str::from_utf8(semi(b, i)).unwrap().parse().unwrap(); Value::Array((0..n).map(|_| go(b, i)).collect()) }
            b'o' => { let n: usize = std::str::from_utf8(semi(b, i)).unwrap().parse().unwrap(); let mut m = Map::new();
                      for _ in 0..n { *i += 1; let k = String::from_utf8(unhex(std::str::from_utf8(semi(b, i)).unwrap())).unwrap(); let v = go(b, i); m.insert(k, v); } Value::Object(m) }
            _ => panic!("bad wire"),
        }
    }
    let mut i = 0; go(s.as_bytes(), &mut i)
}
