//! C04: serialise-then-deserialise is the identity.
//! `rtv` — `Value`s through the three writer/reader pairs × {compact, pretty};
//! `rtt` — typed data of the serde data model (the zoo of derived types lives in `c04t.rs`).
use crate::common::*;
use crate::obs::*;
use crate::prog::{gen_char, gen_str};
use serde_json::{Map, Number, Value};
use std::panic::{catch_unwind, AssertUnwindSafe};

pub fn guard<F: FnOnce() -> String>(f: F) -> String { catch_unwind(AssertUnwindSafe(f)).unwrap_or_else(|_| "PANIC".into()) }

// ------------------------------------------------------------------ floats allowed by the configuration

/// `(w, q)` as the text deserializer accumulates them from a number literal: all digits of the integer and
/// fraction parts as one integer, written exponent minus number of fraction digits. `None` if w ≥ 10^19.
pub fn literal_parts(t: &str) -> Option<(u64, i64)> {
    let t = t.strip_prefix('-').unwrap_or(t);
    let (mant, exp) = match t.find(|c| c == 'e' || c == 'E') { Some(i) => (&t[..i], t[i + 1..].parse::<i64>().ok()?), None => (t, 0) };
    let (int, frac) = match mant.find('.') { Some(i) => (&mant[..i], &mant[i + 1..]), None => (mant, "") };
    let digits: String = format!("{}{}", int, frac);
    let digits = digits.trim_start_matches('0');
    if digits.len() > 19 { return None; }
    let w = if digits.is_empty() { 0 } else { digits.parse::<u64>().ok()? };
    Some((w, exp - frac.len() as i64))
}

/// "prints as a short literal": at most 15 significant digits and decimal exponent within ±22, read off the
/// text the crate itself prints (C08's exact case: one correctly rounded multiplication or division)
pub fn prints_short(f: f64) -> bool {
    if !f.is_finite() { return false; }
    let t = match catch_unwind(|| serde_json::to_string(&f)) { Ok(Ok(t)) => t, _ => return false };
    match literal_parts(&t) { Some((w, q)) => w < 1_000_000_000_000_000 && (-22..=22).contains(&q), None => false }
}

/// (significant digits, scientific exponent) of a printed literal: digits with leading and trailing zeros dropped,
/// exponent of the first significant digit (`8000000000000020.0` = (15, 15), `7.40865532228085e-9` = (15, -9))
pub fn sci_shape(t: &str) -> Option<(usize, i64)> {
    let (w, q) = literal_parts_wide(t)?;
    if w == 0 { return Some((1, 0)); }
    let (mut k, mut z) = (w, 0i64);
    while k % 10 == 0 { k /= 10; z += 1; }
    let nd = k.to_string().len();
    Some((nd, q + z + nd as i64 - 1))
}

/// like `literal_parts` but with the digit string read into a u128 (up to 38 written digits)
fn literal_parts_wide(t: &str) -> Option<(u128, i64)> {
    let s = t.strip_prefix('-').unwrap_or(t);
    let (mant, exp) = match s.find(|c| c == 'e' || c == 'E') { Some(i) => (&s[..i], s[i + 1..].parse::<i64>().ok()?), None => (s, 0) };
    let (int, frac) = match mant.find('.') { Some(i) => (&mant[..i], &mant[i + 1..]), None => (mant, "") };
    let digits = format!("{}{}", int, frac);
    if digits.len() > 38 { return None; }
    Some((digits.parse::<u128>().ok()?, exp - frac.len() as i64))
}

/// op `rtsci <hex printed text> <B original bits> => B<bits read back> | E…`: default build only. f64 values whose printed form is
/// short in the statement's plain reading (at most 15 significant digits, scientific exponent within +-22) but lies OUTSIDE
/// C08's exact window (written digits < 10^15 and net exponent within +-22) - the round trip is not exact there
fn emit_rtsci(sink: &mut Sink, x: f64, gen: &str) {
    let t = match catch_unwind(|| serde_json::to_string(&x)) { Ok(Ok(t)) => t, _ => return };
    let o = match catch_unwind(|| serde_json::from_str::<f64>(&t)) {
        Ok(Ok(f)) => format!("B{:016x}", f.to_bits()), Ok(Err(e)) => format!("E{}", hex(e.to_string().as_bytes())), Err(_) => "Xpanic".into() };
    let same = o == format!("B{:016x}", x.to_bits());
    sink.case("rtsci", &[&hex(t.as_bytes()), &format!("B{:016x}", x.to_bits())], &o, &format!("rtsci:{}:{}", gen, if same { "same" } else { "differs" }), true);
}

fn run_rtsci(sink: &mut Sink, thorough: bool, r: &mut Rng) {
    for x in [8000000000000020.0f64, 7.40865532228085e-9, -8000000000000020.0, 9007199254740993e0, 1.23456789012345e-10] {
        let t = serde_json::to_string(&x).unwrap();
        if let Some((nd, e)) = sci_shape(&t) { if nd <= 15 && (-22..=22).contains(&e) && !prints_short(x) { emit_rtsci(sink, x, "fixed"); } }
    }
    let n = if thorough { 60000 } else { 6000 };
    let mut made = 0;
    for _ in 0..n * 8 {
        if made >= n { break; }
        let nd = 1 + r.below(15) as i64;
        let mut k: u64 = 0;
        for i in 0..nd { k = k * 10 + if i == 0 || i == nd - 1 { 1 + r.below(9) as u64 } else { r.below(10) as u64 }; }
        let e = r.below(45) as i64 - 22;
        let x: f64 = format!("{}e{}", k, e - (nd - 1)).parse().unwrap();
        let x = if r.chance(1, 2) { -x } else { x };
        let t = match serde_json::to_string(&x) { Ok(t) => t, Err(_) => continue };
        match sci_shape(&t) { Some((d, se)) if d <= 15 && (-22..=22).contains(&se) && !prints_short(x) => { emit_rtsci(sink, x, "rand"); made += 1; } _ => {} }
    }
}

/// k·10^e with k < 10^15 (1–15 digits), |e| ≤ 22, either sign; kept only if it prints as a short literal
pub fn gen_f64_short(r: &mut Rng) -> f64 {
    const FIXED: &[f64] = &[0.0, -0.0, 1.0, -1.0, 0.5, 1.5, 0.1, 0.3, 4.35, 1e22, 1e-22, 123456789.125, 1e15, 1e-7, 2.5e-8, 999999999999999.0,
                            9.99999999999999e22, 1e21, 1e-5, 1e-6, 100.0, 0.001];
    for _ in 0..20 {
        let f = if r.chance(1, 5) { *r.pick(FIXED) } else {
            let nd = 1 + r.below(15);
            let mut k: u64 = 0;
            for i in 0..nd { k = k * 10 + if i == 0 { 1 + r.below(9) as u64 } else { r.below(10) as u64 }; }
            if r.chance(1, 12) { k = 0; }
            let e = r.below(45) as i64 - 22;
            let x: f64 = format!("{}e{}", k, e).parse().unwrap();
            if r.chance(1, 2) { -x } else { x }
        };
        if prints_short(f) { return f; }
    }
    0.5
}

pub fn gen_f64_any(r: &mut Rng) -> f64 {
    const SP: &[f64] = &[0.0, -0.0, f64::MIN_POSITIVE / 2.0, f64::MIN_POSITIVE, f64::MAX, f64::MIN, 1e300, 1e-300, 0.1, 1.0, 1e21, 1e-7,
                         123456789.125, -1.5, 1e15, 1e16, 1e20, 1e23, 8.5e-320, 0.3, 2.5e-8, 9007199254740993.0, 9007199254740992.0, 4.35, 5e-324,
                         1.7976931348623157e308, 2.2250738585072014e-308, 2.225073858507201e-308, 6.02214076e23, 1e-323];
    loop {
        let f = match r.below(8) {
            0 => f64::from_bits(1 + r.below(4) as u64),
            1 | 2 => *r.pick(SP),
            3 | 4 | 5 => f64::from_bits(r.next()),
            6 => gen_f64_short(r),
            _ => { let x = r.below(2_000_000) as f64 / [1.0, 10.0, 100.0, 1000.0][r.below(4)]; if r.chance(1, 3) { -x } else { x } }
        };
        if f.is_finite() { return f; }
    }
}

/// f64 members of a `Value`: any finite double under float_roundtrip, and under arbitrary_precision (the text is
/// kept); short literals otherwise
pub fn gen_f64_value(r: &mut Rng) -> f64 {
    if cfg!(feature = "fr") || cfg!(feature = "ap") || any_float() { gen_f64_any(r) } else { gen_f64_short(r) }
}
/// exploration only (never set by ./check): `SJH_C04_ANYFLOAT=1` lifts the float restriction in every build, to see
/// what the restriction of the property excludes (docs/C04-NOTES.md)
fn any_float() -> bool {
    static ON: std::sync::OnceLock<bool> = std::sync::OnceLock::new();
    *ON.get_or_init(|| std::env::var_os("SJH_C04_ANYFLOAT").is_some())
}
/// f64 fields of typed data: any finite double under float_roundtrip only (typed `f64` is converted by the
/// configured algorithm also under arbitrary_precision)
pub fn gen_f64_typed(r: &mut Rng) -> f64 {
    if cfg!(feature = "fr") || any_float() { gen_f64_any(r) } else { gen_f64_short(r) }
}

// ------------------------------------------------------------------ values

const INTS: &[i128] = &[0, 1, -1, 9, 10, 255, 256, 65535, 65536, (1 << 31) - 1, 1 << 31, -(1 << 31), (1 << 32) - 1, 1 << 32,
    (1 << 53) - 1, 1 << 53, (1 << 53) + 1, -(1 << 53), -(1 << 53) - 1, -(1 << 53) + 1,
    i64::MAX as i128, i64::MAX as i128 + 1, i64::MAX as i128 - 1, i64::MIN as i128, i64::MIN as i128 + 1,
    u64::MAX as i128, u64::MAX as i128 - 1, 10_000_000_000_000_000_000, 9_999_999_999_999_999_999, 1_000_000_000_000_000_000, 999_999_999_999_999_999];

pub fn gen_int_number(r: &mut Rng) -> Number {
    let x: i128 = match r.below(5) {
        0 | 1 => *r.pick(INTS),
        2 => { let k = r.below(20) as u32; let p = 10i128.pow(k); p - [0i128, 1, -1][r.below(3)] }
        3 => (r.next() >> r.below(64)) as i128,
        _ => -(((r.next() >> 1) >> r.below(63)) as i128) - 1,
    };
    if x < 0 { Number::from(x.max(i64::MIN as i128) as i64) } else { Number::from(x.min(u64::MAX as i128) as u64) }
}

const ADV: &[&str] = &["", "\"", "\\", "\\\\", "\\\"", "\\u0041", "\\n", "\\ud800", "\u{0}", "\u{1}", "\u{8}", "\t", "\n", "\u{b}", "\u{c}", "\r",
    "\u{1a}", "\u{1b}", "\u{1f}", "\u{7f}", "\u{80}", "\u{9f}", "/", "</script>", "é", "€", "\u{10348}", "\u{10ffff}", "\u{ffff}", "\u{fffe}", "\u{feff}",
    "\u{d7ff}", "\u{e000}", "\u{2028}", "\u{2029}", "\u{0}\u{1}\u{2}\u{3}\u{4}\u{5}\u{6}\u{7}\u{8}\u{9}\u{a}\u{b}\u{c}\u{d}\u{e}\u{f}",
    "\u{10}\u{11}\u{12}\u{13}\u{14}\u{15}\u{16}\u{17}\u{18}\u{19}\u{1a}\u{1b}\u{1c}\u{1d}\u{1e}\u{1f}", "a\u{0}b", "\"\"\"", "null", "true", "1", "-0", "1e5", "[]", "{}",
    " ", "  leading", "trailing  ", "\r\n", "a\"b\\c/d\u{8}\u{c}\n\r\t"];

pub fn gen_adv_string(r: &mut Rng) -> String {
    match r.below(8) {
        0 | 1 => r.pick(ADV).to_string(),
        2 | 3 => gen_str(r),
        4 => gen_string(r),
        5 => { let n = r.below(6); (0..n).map(|_| gen_char(r)).collect() }
        6 => { let n = 1 + r.below(4); (0..n).map(|_| *r.pick(ADV)).collect::<Vec<_>>().concat() }
        _ => { let n = r.below(40); (0..n).map(|_| char::from_u32(r.below(0x30) as u32).unwrap()).collect() }
    }
}

pub fn gen_number4(r: &mut Rng) -> Number {
    if r.chance(2, 5) {
        let f = gen_f64_value(r);
        Number::from_f64(f).unwrap()
    } else { gen_int_number(r) }
}

pub fn gen_value4(r: &mut Rng, depth: usize, floats: bool) -> Value {
    let k = if depth == 0 { r.below(5) } else { r.below(9) };
    match k {
        0 => if r.chance(1, 2) { Value::Null } else { Value::Bool(r.chance(1, 2)) },
        1 | 2 => Value::Number(if floats { gen_number4(r) } else { gen_int_number(r) }),
        3 | 4 => Value::String(gen_adv_string(r)),
        5 | 6 => {
            let n = if r.chance(1, 10) { 8 + r.below(8) } else { r.below(4) };
            Value::Array((0..n).map(|_| gen_value4(r, depth - 1, floats)).collect())
        }
        _ => {
            let n = if r.chance(1, 10) { 8 + r.below(8) } else { r.below(5) };
            let mut m = Map::new();
            for _ in 0..n { let k = gen_adv_string(r); let v = gen_value4(r, depth - 1, floats); m.insert(k, v); }
            Value::Object(m)
        }
    }
}

/// `n` nested containers around `leaf`: kind 0 arrays, 1 objects, 2 alternating, 3 random
pub fn nested(r: &mut Rng, n: usize, kind: usize, leaf: Value) -> Value {
    let mut v = leaf;
    for i in 0..n {
        let obj = match kind { 0 => false, 1 => true, 2 => i % 2 == 0, _ => r.chance(1, 2) };
        v = if obj { let mut m = Map::new(); m.insert(if i % 7 == 0 { "k\"\n".to_string() } else { "a".to_string() }, v); Value::Object(m) }
            else if i % 5 == 0 { Value::Array(vec![Value::Null, v]) } else { Value::Array(vec![v]) };
    }
    v
}

pub fn depth(v: &Value) -> usize {
    match v {
        Value::Array(xs) => 1 + xs.iter().map(depth).max().unwrap_or(0),
        Value::Object(m) => 1 + m.values().map(depth).max().unwrap_or(0),
        _ => 0,
    }
}

fn has_float(v: &Value) -> bool {
    match v {
        Value::Number(n) => n.is_f64(),
        Value::Array(xs) => xs.iter().any(has_float),
        Value::Object(m) => m.values().any(has_float),
        _ => false,
    }
}

/// `bits:hex text` of every float in the value as the crate prints it (the driver cannot compute ryu)
#[allow(unused_variables)]
fn float_table(v: &Value) -> String {
    #[cfg(feature = "ap")]
    { "-".to_string() }
    #[cfg(not(feature = "ap"))]
    {
        fn go(v: &Value, out: &mut Vec<String>) {
            match v {
                Value::Number(n) if n.is_f64() => {
                    let f = n.as_f64().unwrap();
                    let t = guard(|| serde_json::to_string(&f).unwrap_or_else(|_| "ERR".into()));
                    let item = format!("{:016x}:{}", f.to_bits(), hex(t.as_bytes()));
                    if !out.contains(&item) { out.push(item); }
                }
                Value::Array(xs) => for x in xs { go(x, out); },
                Value::Object(m) => for (_, x) in m { go(x, out); },
                _ => {}
            }
        }
        let mut out = vec![];
        go(v, &mut out);
        if out.is_empty() { "-".to_string() } else { out.join(",") }
    }
}

// ------------------------------------------------------------------ observation

fn cmp(orig: &str, v: &Value, r: Result<Value, serde_json::Error>) -> String {
    match r {
        Ok(b) => { let e = enc(&b); if e == orig && b == *v { "=".into() } else { format!("V{}", e) } }
        Err(e) => show_err(&e),
    }
}

/// the six combinations: to_string/from_str, to_vec/from_slice, to_writer/from_reader (chunked), then the same pretty
pub fn obs_rtv(v: &Value, sizes: &[usize]) -> String {
    let orig = enc(v);
    let mut out: Vec<String> = vec![];
    for pretty in [false, true] {
        out.push(guard(|| {
            let t = if pretty { serde_json::to_string_pretty(v) } else { serde_json::to_string(v) };
            match t { Ok(t) => cmp(&orig, v, serde_json::from_str::<Value>(&t)), Err(e) => format!("SERERR:{}", hex(e.to_string().as_bytes())) }
        }));
        out.push(guard(|| {
            let t = if pretty { serde_json::to_vec_pretty(v) } else { serde_json::to_vec(v) };
            match t { Ok(t) => cmp(&orig, v, serde_json::from_slice::<Value>(&t)), Err(e) => format!("SERERR:{}", hex(e.to_string().as_bytes())) }
        }));
        out.push(guard(|| {
            let mut buf: Vec<u8> = vec![];
            let t = if pretty { serde_json::to_writer_pretty(&mut buf, v) } else { serde_json::to_writer(&mut buf, v) };
            match t { Ok(()) => cmp(&orig, v, serde_json::from_reader::<_, Value>(Chunked::new(&buf, sizes.to_vec()))),
                      Err(e) => format!("SERERR:{}", hex(e.to_string().as_bytes())) }
        }));
    }
    out.join("|")
}

fn kind(v: &Value) -> &'static str {
    match v { Value::Null => "null", Value::Bool(_) => "bool", Value::Number(n) => if n.is_f64() { "float" } else { "int" }, Value::String(_) => "string",
              Value::Array(_) => "array", Value::Object(_) => "object" }
}

fn emit_rtv(sink: &mut Sink, cfg: &str, v: &Value, r: &mut Rng, src: &str) {
    let sizes = crate::gen::chunk_sizes(r);
    let o = obs_rtv(v, &sizes);
    let ok = o == "=|=|=|=|=|=";
    let d = depth(v);
    let dc = if d == 0 { "d0" } else if d <= 4 { "d1-4" } else if d < 100 { "d5-99" } else { "d100+" };
    let t = format!("rtv:{}:{}:{}{}:{}", src, kind(v), dc, if has_float(v) { ":float" } else { "" }, if ok { "same" } else { "DIFF" });
    let nt = match v { Value::Array(_) | Value::Object(_) | Value::Number(_) => true, Value::String(s) => !s.is_empty(), _ => false };
    sink.case("rtv", &[cfg, &enc(v), &float_table(v)], &o, &t, nt);
}

fn fixed_values(r: &mut Rng) -> Vec<Value> {
    let mut c: Vec<Value> = vec![Value::Null, Value::Bool(true), Value::Bool(false), Value::Array(vec![]), Value::Object(Map::new()),
                                 Value::Array(vec![Value::Array(vec![]), Value::Object(Map::new())])];
    for i in INTS { c.push(Value::Number(if *i < 0 { Number::from(*i as i64) } else { Number::from(*i as u64) })); }
    // numbers that enter a Value through the 128-bit constructors (they must be the same Numbers the parser builds)
    for x in [0i128, 1, 5, -1, -5, i64::MAX as i128, i64::MIN as i128, u64::MAX as i128, i64::MAX as i128 + 1, 1 << 40, -(1 << 40)] {
        if let Some(n) = Number::from_i128(x) { c.push(Value::Number(n.clone())); c.push(Value::Array(vec![Value::Number(n), Value::Null])); }
        if x >= 0 { if let Some(n) = Number::from_u128(x as u128) { c.push(Value::Number(n)); } }
    }
    for s in ADV { c.push(Value::String(s.to_string())); }
    for s in crate::prog::FIXED_STRS { c.push(Value::String(s.to_string())); }
    // every control character and a few others as a one-character string, as a key, and in the middle of a string
    for cp in (0u32..0x21).chain([0x22, 0x2f, 0x5c, 0x7f, 0x80, 0xff, 0x2028, 0xd7ff, 0xe000, 0xfffd, 0xffff, 0x10000, 0x10ffff]) {
        let ch = char::from_u32(cp).unwrap();
        c.push(Value::String(ch.to_string()));
        let mut m = Map::new(); m.insert(ch.to_string(), Value::String(format!("a{}b", ch))); m.insert(format!("{}{}", ch, ch), Value::Null);
        c.push(Value::Object(m));
    }
    // an object with all adversarial keys at once (sorted by the map in the default build, insertion order under preserve_order)
    let mut m = Map::new();
    for (i, s) in ADV.iter().enumerate() { m.insert(s.to_string(), Value::from(i as u64)); }
    c.push(Value::Object(m));
    // keys that differ only in length / last byte; descending insertion order
    let mut m = Map::new();
    for k in ["b", "ab", "aa", "a\u{0}", "a", "", "\u{10ffff}", "é", "z", "Z"] { m.insert(k.to_string(), Value::Null); }
    c.push(Value::Object(m));
    // deep containers
    for n in [1usize, 2, 50, 100, 126, 127] {
        for kind in 0..4 {
            for leaf in [Value::Null, Value::Array(vec![]), Value::Object(Map::new()), Value::String("x\"".into()), Value::from(u64::MAX)] {
                let inner = if matches!(leaf, Value::Array(_) | Value::Object(_)) { n - 1 } else { n };
                c.push(nested(r, inner, kind, leaf));
            }
        }
    }
    // floats admitted by the configuration
    for _ in 0..60 { let f = gen_f64_value(r); c.push(Value::Number(Number::from_f64(f).unwrap())); }
    for f in [0.0f64, -0.0, 1.0, 1.5, 0.1, 1e22, 1e-22, 123456789.125] { if cfg!(feature = "fr") || cfg!(feature = "ap") || prints_short(f) {
        let n = Value::Number(Number::from_f64(f).unwrap());
        let mut m = Map::new(); m.insert("x".to_string(), n.clone());
        c.push(Value::Array(vec![n.clone(), Value::Object(m), n]));
    } }
    c
}

pub fn replay(sink: &mut Sink, toks: &[&str]) {
    let cfg = cfg_tag();
    match toks[0] {
        "rtv" if toks.len() >= 3 => {
            let v = dec_value(toks[2]);
            let o = obs_rtv(&v, &[1]);
            sink.case("rtv", &[&cfg, &enc(&v), &float_table(&v)], &o, "replay", true);
        }
        "rtsci" if toks.len() >= 3 => {
            if let Ok(b) = u64::from_str_radix(toks[2].trim_start_matches('B'), 16) { emit_rtsci(sink, f64::from_bits(b), "replay"); }
        }
        "rtt" if toks.len() >= 4 => crate::c04t::replay(sink, &cfg, toks[2], toks[3].parse().unwrap_or(0)),
        _ => eprintln!("cannot replay {:?}", toks),
    }
}

pub fn run(sink: &mut Sink, thorough: bool, seed: u64) {
    let mut r = Rng::new(seed);
    let cfg = cfg_tag();
    // wire codec self-check (the replay path depends on it)
    for k in 0..200 { let v = gen_value4(&mut r, k % 4, true); let e = enc(&v); assert_eq!(e, enc(&dec_value(&e)), "wire codec"); }
    for v in fixed_values(&mut r) { emit_rtv(sink, &cfg, &v, &mut r, "fixed"); }
    // objects keyed by the private tokens of Number / RawValue are ordinary Values: they must survive the round trip too
    if cfg!(feature = "ap") || cfg!(feature = "rv") {
        for tok in ["$serde_json::private::Number", "$serde_json::private::RawValue"] {
            for inner in [serde_json::json!("1"), serde_json::json!("abc"), serde_json::json!(1), serde_json::json!(null), serde_json::json!("[1, 2]")] {
                let mut m = serde_json::Map::new(); m.insert(tok.to_string(), inner.clone());
                let o = Value::Object(m.clone());
                emit_rtv(sink, &cfg, &o, &mut r, "private-token");
                emit_rtv(sink, &cfg, &Value::Array(vec![o.clone(), Value::Null]), &mut r, "private-token");
                m.insert("~".to_string(), Value::Bool(true));   // a second key that sorts after the token
                emit_rtv(sink, &cfg, &Value::Object(m), &mut r, "private-token");
            }
        }
    }
    let n = if thorough { 30000 } else { 4000 };
    for k in 0..n {
        let d = r.below(5);
        let floats = k % 3 != 0;
        let v = gen_value4(&mut r, d, floats);
        emit_rtv(sink, &cfg, &v, &mut r, if floats { "rand" } else { "randnf" });
    }
    for k in 0..n / 20 {
        let v0 = gen_value4(&mut r, 2, true);
        let n = 90 + r.below(35);
        let v = nested(&mut r, n, k % 4, v0);
        if depth(&v) <= 127 { emit_rtv(sink, &cfg, &v, &mut r, "deep"); }
    }
    if !cfg!(feature = "fr") && !cfg!(feature = "ap") { run_rtsci(sink, thorough, &mut r); }
    crate::c04t::run(sink, thorough, &mut r, &cfg);
}
