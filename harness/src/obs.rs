//! Observations of the text deserializer: canonical outcome strings shared by several properties.
#![allow(dead_code)]
use crate::common::*;
use serde::de::IgnoredAny;
use serde_json::Value;
use std::io::Read;

/// configuration tag of this build (feature names joined by `+`, `d` for default)
pub fn cfg_tag() -> String {
    let mut v: Vec<&str> = vec![];
    if cfg!(feature = "po") { v.push("po"); }
    if cfg!(feature = "fr") { v.push("fr"); }
    if cfg!(feature = "ap") { v.push("ap"); }
    if cfg!(feature = "rv") { v.push("rv"); }
    if cfg!(feature = "ud") { v.push("ud"); }
    if v.is_empty() { "d".into() } else { v.join("+") }
}

pub fn cat_name(e: &serde_json::Error) -> &'static str {
    match e.classify() {
        serde_json::error::Category::Io => "io",
        serde_json::error::Category::Syntax => "syntax",
        serde_json::error::Category::Data => "data",
        serde_json::error::Category::Eof => "eof",
    }
}

/// `E:<hex message without position>:<category>:<line>:<col>`
pub fn show_err(e: &serde_json::Error) -> String {
    let full = e.to_string();
    let msg = match full.rfind(" at line ") { Some(i) if e.line() != 0 => &full[..i], _ => &full[..] };
    format!("E:{}:{}:{}:{}", hex(msg.as_bytes()), cat_name(e), e.line(), e.column())
}

/// reader that hands out the data in chunks of the given sizes (cycled); size 0 entries are skipped
pub struct Chunked<'a> { pub data: &'a [u8], pub pos: usize, pub sizes: Vec<usize>, pub k: usize }
impl<'a> Chunked<'a> {
    pub fn new(data: &'a [u8], sizes: Vec<usize>) -> Self { Chunked { data, pos: 0, sizes, k: 0 } }
}
impl<'a> Read for Chunked<'a> {
    fn read(&mut self, buf: &mut [u8]) -> std::io::Result<usize> {
        if self.pos >= self.data.len() || buf.is_empty() { return Ok(0); }
        let want = if self.sizes.is_empty() { buf.len() } else { let s = self.sizes[self.k % self.sizes.len()].max(1); self.k += 1; s };
        let n = want.min(buf.len()).min(self.data.len() - self.pos);
        buf[..n].copy_from_slice(&self.data[self.pos..self.pos + n]);
        self.pos += n;
        Ok(n)
    }
}

fn guard<F: FnOnce() -> String + std::panic::UnwindSafe>(f: F) -> String {
    match std::panic::catch_unwind(f) { Ok(s) => s, Err(_) => "PANIC".to_string() }
}

pub fn value_str(s: &str) -> String {
    let s = s.to_string();
    guard(move || match serde_json::from_str::<Value>(&s) { Ok(v) => format!("V{}", enc(&v)), Err(e) => show_err(&e) })
}
pub fn value_slice(b: &[u8]) -> String {
    let b = b.to_vec();
    guard(move || match serde_json::from_slice::<Value>(&b) { Ok(v) => format!("V{}", enc(&v)), Err(e) => show_err(&e) })
}
pub fn value_reader(b: &[u8], sizes: Vec<usize>) -> String {
    let b = b.to_vec();
    guard(move || match serde_json::from_reader::<_, Value>(Chunked::new(&b, sizes)) { Ok(v) => format!("V{}", enc(&v)), Err(e) => show_err(&e) })
}
pub fn ignored_str(s: &str) -> String {
    let s = s.to_string();
    guard(move || match serde_json::from_str::<IgnoredAny>(&s) { Ok(_) => "U".into(), Err(e) => show_err(&e) })
}
pub fn ignored_slice(b: &[u8]) -> String {
    let b = b.to_vec();
    guard(move || match serde_json::from_slice::<IgnoredAny>(&b) { Ok(_) => "U".into(), Err(e) => show_err(&e) })
}
pub fn ignored_reader(b: &[u8], sizes: Vec<usize>) -> String {
    let b = b.to_vec();
    guard(move || match serde_json::from_reader::<_, IgnoredAny>(Chunked::new(&b, sizes)) { Ok(_) => "U".into(), Err(e) => show_err(&e) })
}

/// all three sources: `str|slice|reader` (`-` for str when the bytes are not UTF-8)
pub fn value_all(b: &[u8], sizes: Vec<usize>) -> String {
    let s = match std::str::from_utf8(b) { Ok(s) => value_str(s), Err(_) => "-".into() };
    format!("{}|{}|{}", s, value_slice(b), value_reader(b, sizes))
}
pub fn ignored_all(b: &[u8], sizes: Vec<usize>) -> String {
    let s = match std::str::from_utf8(b) { Ok(s) => ignored_str(s), Err(_) => "-".into() };
    format!("{}|{}|{}", s, ignored_slice(b), ignored_reader(b, sizes))
}
