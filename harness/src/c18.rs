//! C18: Value::pointer / pointer_mut / parse_index against the RFC 6901 evaluator;
//! get / Index / IndexMut / take against direct container access; `Value == primitive`;
//! `json!` (a generated program, compiled at check time) against parsing the equivalent text.
use crate::common::*;
use serde_json::{Map, Value};
use std::panic::{catch_unwind, AssertUnwindSafe};

fn obs_ptr(v: &Value, p: &str) -> String {
    match v.pointer(p) { None => "N".into(), Some(x) => format!("S{}", enc(x)) }
}
/// pointer_mut: overwrite the addressed node with a sentinel and report the whole document
fn obs_ptrmut(v: &Value, p: &str) -> String {
    let mut w = v.clone();
    match w.pointer_mut(p) {
        None => "N".into(),
        Some(x) => { *x = Value::String("#".into()); format!("S{}", enc(&w)) }
    }
}

fn emit(sink: &mut Sink, v: &Value, p: &str, tag: &str) {
    let e = enc(v); let h = hexf(p.as_bytes());
    let o = obs_ptr(v, p);
    let nt = p.len() > 1;
    let t = format!("{}:{}", tag, if o == "N" { "none" } else { "some" });
    sink.case("ptr", &[&e, &h], &o, &t, nt);
    let o2 = obs_ptrmut(v, p);
    sink.case("ptrmut", &[&e, &h], &o2, &format!("mut-{}", t), nt);
}

pub fn replay(sink: &mut Sink, toks: &[&str]) {
    match toks[0] {
        "vget" | "vindex" | "vindexmut" | "vtake" => return replay_index(sink, toks),
        "peq" => return replay_peq(sink, toks),
        "jsonm" | "jsonp" | "jsonmbuild" => return replay_jsonm(sink, toks),
        _ => {}
    }
    if toks.len() < 3 { return; }
    let v = crate::common::dec_value(toks[1]);
    let p = String::from_utf8(unhex(toks[2])).unwrap();
    match toks[0] {
        "ptr" => { let o = obs_ptr(&v, &p); sink.case("ptr", &[toks[1], toks[2]], &o, "replay", true) }
        _ => { let o = obs_ptrmut(&v, &p); sink.case("ptrmut", &[toks[1], toks[2]], &o, "replay", true) }
    }
}

fn esc_variants(k: &str, r: &mut Rng) -> String {
    // escaped spelling; sometimes deliberately wrong order / unescaped
    match r.below(8) {
        0 => k.to_string(),                                   // raw (wrong if it has ~ or /)
        1 => k.replace('/', "~1").replace('~', "~0"),         // wrong order
        _ => k.replace('~', "~0").replace('/', "~1"),         // RFC order
    }
}

fn all_paths(v: &Value, cur: String, out: &mut Vec<String>, r: &mut Rng) {
    out.push(cur.clone());
    match v {
        Value::Array(xs) => for (i, x) in xs.iter().enumerate() { all_paths(x, format!("{}/{}", cur, i), out, r); },
        Value::Object(m) => for (k, x) in m { let e = esc_variants(k, r); all_paths(x, format!("{}/{}", cur, e), out, r); },
        _ => {}
    }
}

fn mutate(p: &str, r: &mut Rng) -> String {
    let alpha = ['/', '~', '0', '1', 'a', '-', '+', '2', '9', 'é'];
    let mut cs: Vec<char> = p.chars().collect();
    match r.below(4) {
        0 if !cs.is_empty() => { let i = r.below(cs.len()); cs.remove(i); }
        1 => { let i = r.below(cs.len() + 1); cs.insert(i, *r.pick(&alpha)); }
        2 if !cs.is_empty() => { let i = r.below(cs.len()); cs[i] = *r.pick(&alpha); }
        _ => { cs.push('/'); cs.push(*r.pick(&alpha)); }
    }
    cs.into_iter().collect()
}

pub fn run(sink: &mut Sink, thorough: bool, seed: u64) {
    let mut r = Rng::new(seed);
    // arbitrary_precision, quick tier: only `Value == primitive` over string-backed numbers (what the feature changes);
    // the pointer / index / json! ops run under this feature in the thorough tier
    if cfg!(feature = "ap") && !thorough { run_peq(sink, thorough, &mut r); return; }
    // fixed corpus: index edge cases on a 12-element array and an object with index-like keys
    let arr = Value::Array((0..12).map(Value::from).collect());
    for p in ["", "/", "/0", "/00", "/01", "/1", "/11", "/12", "/011", "/+1", "/-", "/-1", "/1e0", "/ 1", "/1 ", "/٣",
              "/18446744073709551615", "/18446744073709551616", "/00000000000000000000000001", "/0/", "//", "0", "/1/0", "/99999999999999999999999999999"] {
        emit(sink, &arr, p, "idx");
    }
    let ob: Value = serde_json::from_str(r#"{"":{"":1,"~":2,"/":3},"~":4,"/":5,"~0":6,"~1":7,"a/b":[8,{"m~n":9}],"~01":10,"~10":11,"0":12,"01":13,"-":14,"+1":15,"~~":16,"~2":17}"#).unwrap();
    for p in ["", "/", "//", "//~0", "//~1", "/~0", "/~1", "/~00", "/~01", "/~001", "/~010", "/~0~1", "/~1~0", "/a~1b", "/a~1b/1/m~0n", "/a/b",
              "/~", "/~2", "/~~", "/~0~0", "/0", "/01", "/-", "/+1", "/~01", "/~10", "/~", "a", "~0", "/a~1b/01", "/a~1b/1/", "/~0/"] {
        emit(sink, &ob, p, "esc");
    }
    // exhaustive short pointers over a small alphabet against `ob` and `arr`
    let alpha: &[u8] = b"/~01a-";
    let maxlen = if thorough { 6 } else { 5 };
    for len in 1..=maxlen {
        let total = alpha.len().pow(len as u32);
        for mut i in 0..total {
            let mut s = Vec::with_capacity(len);
            for _ in 0..len { s.push(alpha[i % alpha.len()]); i /= alpha.len(); }
            let p = String::from_utf8(s).unwrap();
            emit(sink, &ob, &p, "exh");
            if len <= 4 { emit(sink, &arr, &p, "exh-arr"); }
        }
    }
    // random documents: every existing path (escaped spellings), mutated, random
    let docs = if thorough { 20000 } else { 1500 };
    for _ in 0..docs {
        let v = gen_value(&mut r, 3);
        let mut paths = vec![];
        all_paths(&v, String::new(), &mut paths, &mut r);
        for p in &paths {
            emit(sink, &v, p, "path");
            if r.chance(1, 2) { let q = mutate(p, &mut r); emit(sink, &v, &q, "mutated"); }
        }
        for _ in 0..3 {
            let n = r.below(7);
            let q: String = (0..n).map(|_| *r.pick(&['/', '~', '0', '1', 'a', '-', '+', 'b'])).collect();
            emit(sink, &v, &q, "random");
        }
    }
    run_index(sink, thorough, &mut r);
    run_peq(sink, thorough, &mut r);
    run_jsonm(sink, thorough, seed, &mut r);
}

// ------------------------------------------------------------------------------------------------
// get / get_mut / Index / IndexMut / take
// ------------------------------------------------------------------------------------------------

/// an index expression: `usize`, `&str`, `String` and references to them (the four `Index` impls)
#[derive(Clone, Debug)]
enum Probe { U(usize), S(String), St(String), R(Box<Probe>) }

fn enc_probe(p: &Probe) -> String {
    match p {
        Probe::U(n) => format!("u{}", n),
        Probe::S(s) => format!("rs{}", hexf(s.as_bytes())),      // `&str` is `&T` with `T = str`
        Probe::St(s) => format!("S{}", hexf(s.as_bytes())),
        Probe::R(q) => format!("r{}", enc_probe(q)),
    }
}
fn dec_probe(t: &str) -> Option<Probe> {
    let txt = |h: &str| String::from_utf8(unhex(h)).ok();
    if let Some(r) = t.strip_prefix("rs") { return txt(r).map(Probe::S); }
    if let Some(r) = t.strip_prefix('r') { return dec_probe(r).map(|q| Probe::R(Box::new(q))); }
    if let Some(r) = t.strip_prefix('u') { return r.parse().ok().map(Probe::U); }
    if let Some(r) = t.strip_prefix('S') { return txt(r).map(Probe::St); }
    None
}

/// run `$body` with `$i` bound to the probe as a value of its concrete Rust type
macro_rules! with_probe {
    ($p:expr, $i:ident => $body:expr) => {
        match $p {
            Probe::U(n) => { let $i: usize = *n; $body }
            Probe::S(s) => { let $i: &str = s.as_str(); $body }
            Probe::St(s) => { let $i: String = s.clone(); $body }
            Probe::R(q) => match &**q {
                Probe::U(n) => { let $i: &usize = n; $body }
                Probe::S(s) => { let t: &str = s.as_str(); let $i: &&str = &t; $body }
                Probe::St(s) => { let $i: &String = s; $body }
                Probe::R(q2) => match &**q2 {
                    Probe::U(n) => { let t: &usize = n; let $i: &&usize = &t; $body }
                    Probe::S(s) => { let t: &str = s.as_str(); let u: &&str = &t; let $i: &&&str = &u; $body }
                    Probe::St(s) => { let t: &String = s; let $i: &&String = &t; $body }
                    Probe::R(_) => panic!("probe nesting too deep"),
                },
            },
        }
    };
}

fn opt(o: Option<&Value>) -> String { match o { None => "N".into(), Some(x) => format!("S{}", enc(x)) } }
fn sentinel() -> Value { Value::String("#".into()) }

fn obs_vget(p: &Probe, v: &Value) -> String {
    let a = with_probe!(p, i => opt(v.get(i)));
    let mut w = v.clone();
    let hit = with_probe!(p, i => match w.get_mut(i) { None => false, Some(r) => { *r = sentinel(); true } });
    format!("{}|{}", a, if hit { format!("S{}", enc(&w)) } else { "N".into() })
}
fn obs_vindex(p: &Probe, v: &Value) -> String {
    match catch_unwind(AssertUnwindSafe(|| with_probe!(p, i => enc(&v[i])))) { Ok(s) => s, Err(_) => "PANIC".into() }
}
fn obs_vindexmut(p: &Probe, v: &Value) -> String {
    let mut w = v.clone();
    let r = catch_unwind(AssertUnwindSafe(|| with_probe!(p, i => { let r = &mut w[i]; let old = enc(r); *r = sentinel(); old })));
    match r { Ok(old) => format!("{}|{}", old, enc(&w)), Err(_) => "PANIC".into() }
}
fn obs_vtake(v: &Value, ptr: &str) -> String {
    let mut w = v.clone();
    match w.pointer_mut(ptr).map(Value::take) { None => "N".into(), Some(t) => format!("{}|{}", enc(&t), enc(&w)) }
}

fn kind(v: &Value) -> &'static str {
    match v { Value::Null => "null", Value::Bool(_) => "bool", Value::Number(_) => "num", Value::String(_) => "str", Value::Array(_) => "arr", Value::Object(_) => "obj" }
}

fn emit_index(sink: &mut Sink, p: &Probe, v: &Value) {
    let pe = enc_probe(p); let ve = enc(v);
    let cfg = crate::obs::cfg_tag();
    let pk = match p { Probe::U(_) => "usize", Probe::S(_) => "&str", Probe::St(_) => "String", Probe::R(_) => "&T" };
    let nt = matches!(v, Value::Array(_) | Value::Object(_) | Value::Null);
    let o = obs_vget(p, v);
    sink.case("vget", &[&pe, &ve], &o, &format!("vget:{}:{}:{}", pk, kind(v), if o.starts_with('N') { "miss" } else { "hit" }), nt);
    let o = obs_vindex(p, v);
    sink.case("vindex", &[&pe, &ve], &o, &format!("vindex:{}:{}", pk, kind(v)), nt);
    let o = obs_vindexmut(p, v);
    sink.case("vindexmut", &[&cfg, &pe, &ve], &o, &format!("vindexmut:{}:{}:{}", pk, kind(v), if o == "PANIC" { "panic" } else { "ok" }), nt);
}

fn replay_index(sink: &mut Sink, toks: &[&str]) {
    match (toks[0], toks.len()) {
        ("vget", 3) | ("vindex", 3) => {
            let (Some(p), v) = (dec_probe(toks[1]), dec_value(toks[2])) else { return };
            let o = if toks[0] == "vget" { obs_vget(&p, &v) } else { obs_vindex(&p, &v) };
            sink.case(toks[0], &[toks[1], toks[2]], &o, "replay", true);
        }
        ("vindexmut", 4) => {
            let (Some(p), v) = (dec_probe(toks[2]), dec_value(toks[3])) else { return };
            let o = obs_vindexmut(&p, &v);
            sink.case("vindexmut", &[&crate::obs::cfg_tag(), toks[2], toks[3]], &o, "replay", true);
        }
        ("vtake", 3) => {
            let v = dec_value(toks[1]); let p = String::from_utf8(unhex(toks[2])).unwrap();
            let o = obs_vtake(&v, &p);
            sink.case("vtake", &[toks[1], toks[2]], &o, "replay", true);
        }
        _ => {}
    }
}

fn probes_for(v: &Value, r: &mut Rng) -> Vec<Probe> {
    let mut ps = vec![];
    let mut keys: Vec<String> = vec![r.pick(KEYS).to_string(), gen_string(r)];
    let mut idxs: Vec<usize> = vec![0, r.below(4)];
    match v {
        Value::Object(m) => { for k in m.keys() { keys.push(k.clone()); } idxs.push(m.len()); }
        Value::Array(xs) => { idxs.push(xs.len()); if !xs.is_empty() { idxs.push(xs.len() - 1); } idxs.push(usize::MAX); keys.push("0".into()); }
        _ => {}
    }
    for k in keys {
        match r.below(5) {
            0 => ps.push(Probe::St(k)),
            1 => ps.push(Probe::R(Box::new(Probe::St(k)))),
            2 => ps.push(Probe::R(Box::new(Probe::S(k)))),
            3 => ps.push(Probe::R(Box::new(Probe::R(Box::new(Probe::St(k)))))),
            _ => ps.push(Probe::S(k)),
        }
    }
    for i in idxs {
        match r.below(4) { 0 => ps.push(Probe::R(Box::new(Probe::U(i)))), 1 => ps.push(Probe::R(Box::new(Probe::R(Box::new(Probe::U(i)))))), _ => ps.push(Probe::U(i)) }
    }
    ps
}

fn run_index(sink: &mut Sink, thorough: bool, r: &mut Rng) {
    // fixed corpus: every value kind × every probe form
    let fixed: Vec<Value> = vec![
        Value::Null, Value::Bool(true), Value::from(7u64), Value::from(-7i64), Value::from(1.5f64), Value::from("s"), Value::from(""),
        Value::Array(vec![]), Value::Array(vec![Value::Null]), Value::Array((0..3).map(Value::from).collect()),
        Value::Object(Map::new()),
        serde_json::from_str(r#"{"b":1,"a":null,"c":[1],"":{"x":2},"0":"zero","~":false}"#).unwrap(),
    ];
    let fixed_probes: Vec<Probe> = vec![
        Probe::U(0), Probe::U(1), Probe::U(2), Probe::U(3), Probe::U(usize::MAX), Probe::R(Box::new(Probe::U(0))), Probe::R(Box::new(Probe::R(Box::new(Probe::U(1))))),
        Probe::S("a".into()), Probe::S("aa".into()), Probe::S("".into()), Probe::S("0".into()), Probe::S("bb".into()), Probe::S("z".into()), Probe::S("A".into()),
        Probe::St("b".into()), Probe::St("d".into()), Probe::R(Box::new(Probe::St("c".into()))), Probe::R(Box::new(Probe::S("~".into()))),
        Probe::R(Box::new(Probe::R(Box::new(Probe::S("a".into()))))), Probe::R(Box::new(Probe::R(Box::new(Probe::St("nope".into()))))),
    ];
    for v in &fixed { for p in &fixed_probes { emit_index(sink, p, v); } }
    for v in &fixed {
        for p in ["", "/a", "/c/0", "//x", "/0", "/zz", "/c/5", "a"] {
            let o = obs_vtake(v, p);
            sink.case("vtake", &[&enc(v), &hexf(p.as_bytes())], &o, &format!("vtake:{}", if o == "N" { "none" } else { "some" }), true);
        }
    }
    let docs = if thorough { 30000 } else { 2500 };
    for _ in 0..docs {
        let v = gen_value(r, 2);
        for p in probes_for(&v, r) { emit_index(sink, &p, &v); }
        let mut paths = vec![];
        all_paths(&v, String::new(), &mut paths, r);
        let p = r.pick(&paths).clone();
        let p = if r.chance(1, 5) { mutate(&p, r) } else { p };
        let o = obs_vtake(&v, &p);
        sink.case("vtake", &[&enc(&v), &hexf(p.as_bytes())], &o, &format!("vtake:{}", if o == "N" { "none" } else { "some" }), !p.is_empty());
    }
}

// ------------------------------------------------------------------------------------------------
// PartialEq with primitives
// ------------------------------------------------------------------------------------------------

const INT_TYS: &[&str] = &["i8", "i16", "i32", "i64", "isize", "u8", "u16", "u32", "u64", "usize"];

fn tf(b: bool) -> char { if b { 't' } else { 'f' } }

/// the four impls the macro generates for a numeric type / bool
macro_rules! four_forms {
    ($v:expr, $x:expr) => {{
        let v: &Value = $v; let x = $x;
        let mut w = v.clone();
        let a = *v == x; let b = x == *v; let c = v == x; let d = { let m: &mut Value = &mut w; m == x };
        [a, b, c, d].iter().map(|b| tf(*b)).collect::<String>()
    }};
}

fn obs_peq(ty: &str, c: &str, v: &Value) -> Option<String> {
    macro_rules! int { ($t:ty) => {{ let x: i128 = c.parse().ok()?; if x < <$t>::MIN as i128 || x > <$t>::MAX as i128 { return None; } four_forms!(v, x as $t) }}; }
    Some(match ty {
        "i8" => int!(i8), "i16" => int!(i16), "i32" => int!(i32), "i64" => int!(i64), "isize" => int!(isize),
        "u8" => int!(u8), "u16" => int!(u16), "u32" => int!(u32), "u64" => int!(u64), "usize" => int!(usize),
        "f32" => four_forms!(v, f32::from_bits(u32::from_str_radix(c, 16).ok()?)),
        "f64" => four_forms!(v, f64::from_bits(u64::from_str_radix(c, 16).ok()?)),
        "bool" => four_forms!(v, c == "t"),
        "str" => {
            let s = String::from_utf8(unhex(c)).ok()?;
            let r: &str = s.as_str();
            [*v == *r, *v == r, *r == *v, r == *v, *v == s, s == *v].iter().map(|b| tf(*b)).collect()
        }
        _ => return None,
    })
}

fn emit_peq(sink: &mut Sink, ty: &str, c: &str, v: &Value, tag: &str) {
    if let Some(o) = obs_peq(ty, c, v) {
        let t = format!("peq:{}:{}:{}:{}", ty, kind(v), tag, if o.contains('t') { "eq" } else { "ne" });
        let nt = matches!(v, Value::Number(_) | Value::String(_) | Value::Bool(_));
        // builds with arbitrary_precision carry their configuration tag: the driver then runs the string-backed model
        if cfg!(feature = "ap") { sink.case("peq", &[ty, c, &enc(v), &crate::obs::cfg_tag()], &o, &t, nt); }
        else { sink.case("peq", &[ty, c, &enc(v)], &o, &t, nt); }
    }
}

fn replay_peq(sink: &mut Sink, toks: &[&str]) {
    if toks.len() != 4 && toks.len() != 5 { return; }
    // a case recorded under arbitrary_precision (fifth token = its cfg tag) replays only in such a build, and vice versa
    if (toks.len() == 5) != cfg!(feature = "ap") { return; }
    let v = dec_value(toks[3]);
    if let Some(o) = obs_peq(toks[1], toks[2], &v) {
        if toks.len() == 5 { sink.case("peq", &[toks[1], toks[2], toks[3], toks[4]], &o, "replay", true); }
        else { sink.case("peq", &[toks[1], toks[2], toks[3]], &o, "replay", true); }
    }
}

fn peq_values() -> Vec<Value> {
    let mut vs: Vec<Value> = vec![Value::Null, Value::Bool(true), Value::Bool(false), Value::from(""), Value::from("1"), Value::from("a"), Value::from("true"),
        Value::from("-1"), Value::Array(vec![Value::from(1)]), Value::Object(Map::new())];
    for n in [0u64, 1, 2, 127, 128, 255, 256, 32767, 32768, 65535, 65536, (1 << 31) - 1, 1 << 31, (1u64 << 32) - 1, 1 << 32,
              16777216, 16777217, (1 << 53) - 1, 1 << 53, (1 << 53) + 1, (1 << 53) + 2, i64::MAX as u64 - 1, i64::MAX as u64, 1 << 63, (1 << 63) + 1, u64::MAX - 1, u64::MAX] {
        vs.push(Value::from(n));
    }
    for n in [-1i64, -2, -127, -128, -129, -255, -256, -32768, -32769, -65536, -(1 << 31), -(1 << 31) - 1, -(1 << 32), -16777217, -(1 << 53), -(1 << 53) - 1, i64::MIN + 1, i64::MIN] {
        vs.push(Value::from(n));
    }
    for f in [0.0f64, -0.0, 1.0, -1.0, 1.5, 0.5, 127.0, 128.0, 255.0, 256.0, 9007199254740992.0, 9007199254740994.0, 9223372036854775808.0, 18446744073709551616.0,
              -9223372036854775808.0, 1e300, -1e300, f32::MAX as f64, 3.5e38, 0.1, 0.1f32 as f64, 16777217.0, 5e-324, f64::MAX, f64::MIN_POSITIVE, 1e-46, f32::MIN_POSITIVE as f64] {
        vs.push(Value::from(f));
    }
    // arbitrary_precision: numbers as parsed literals, in spellings `Value::from` never produces
    #[cfg(feature = "ap")]
    for lit in ["-0", "0", "-0.0", "0.0", "0e0", "-0e-5", "1.0", "1.00", "1e0", "1E2", "1e2", "100", "100.0", "10e1", "1000e-1", "0.1", "0.10", "1e-1",
                "255", "255.0", "2.55e2", "256", "-128", "-128.0", "-1.28e2", "127", "65535", "65536", "16777216", "16777217", "16777217.0", "16777218",
                "9007199254740992", "9007199254740993", "9007199254740993.0", "9223372036854775807", "9223372036854775808", "-9223372036854775808", "-9223372036854775809",
                "18446744073709551615", "18446744073709551616", "18446744073709551615.0", "1.8446744073709551615e19", "340282366920938463463374607431768211455",
                "3.4028234663852886e38", "3.4028235e38", "3.4028236e38", "340282356779733661637539395458142568448", "1e38", "1e39", "1.7976931348623157e308", "1.7976931348623158e308",
                "1.7976931348623159e308", "1e308", "1e309", "1e400", "-1e400", "1e-400", "-1e-400", "5e-324", "4.9e-324", "2.4703282292062327e-324", "2.4703282292062328e-324",
                "1e-45", "7e-46", "1.401298464324817e-45", "0.30000000000000004", "0.1000000000000000055511151231257827021181583404541015625",
                "123456789012345678901234567890", "0.000000000000000000000000000000000000000000000000000001", "1.5", "-1.5", "0.5", "2e0", "1e22", "1e23",
                // just above the midpoint of two adjacent f32 (1 + 2^-24) by less than half an f64 ulp: one rounding gives 1.0000001, two give 1.0
                "1.00000005960464477539062500001", "1.000000059604644775390625", "1.00000005960464477539062499999"] {
        vs.push(serde_json::from_str(lit).unwrap());
    }
    vs
}

fn int_comparands(ty: &str) -> Vec<i128> {
    let (lo, hi): (i128, i128) = match ty {
        "i8" => (i8::MIN as i128, i8::MAX as i128), "i16" => (i16::MIN as i128, i16::MAX as i128), "i32" => (i32::MIN as i128, i32::MAX as i128),
        "i64" | "isize" => (i64::MIN as i128, i64::MAX as i128),
        "u8" => (0, u8::MAX as i128), "u16" => (0, u16::MAX as i128), "u32" => (0, u32::MAX as i128), _ => (0, u64::MAX as i128),
    };
    let mut xs: Vec<i128> = vec![lo, lo + 1, -2, -1, 0, 1, 2, hi - 1, hi];
    for b in [7u32, 8, 15, 16, 24, 31, 32, 53, 63, 64] { for d in [-1i128, 0, 1] { xs.push((1i128 << b) + d); xs.push(-(1i128 << b) + d); } }
    xs.retain(|x| *x >= lo && *x <= hi);
    xs.sort(); xs.dedup();
    xs
}

fn run_peq(sink: &mut Sink, thorough: bool, r: &mut Rng) {
    let vs = peq_values();
    for ty in INT_TYS {
        for x in int_comparands(ty) { let c = x.to_string(); for v in &vs { emit_peq(sink, ty, &c, v, "boundary"); } }
    }
    let f64s = [0.0f64, -0.0, f64::NAN, -f64::NAN, f64::INFINITY, f64::NEG_INFINITY, 1.0, -1.0, 1.5, 127.0, 255.0, 9007199254740992.0, 9007199254740994.0,
                9223372036854775808.0, -9223372036854775808.0, 18446744073709551616.0, 18446744073709549568.0, 1e300, -1e300, 0.1, 0.1f32 as f64, f32::MAX as f64, 16777216.0, 5e-324, f64::MAX];
    for x in f64s { let c = format!("{:016x}", x.to_bits()); for v in &vs { emit_peq(sink, "f64", &c, v, "boundary"); } }
    let f32s = [0.0f32, -0.0, f32::NAN, f32::INFINITY, f32::NEG_INFINITY, 1.0, -1.0, 1.5, 127.0, 255.0, 16777216.0, 16777218.0, 9007199254740992.0, 9223372036854775808.0,
                -9223372036854775808.0, 18446744073709551616.0, 0.1, f32::MAX, f32::MIN_POSITIVE, 1e-45, 0.5, f32::from_bits(0x3f800001)];
    for x in f32s { let c = format!("{:08x}", x.to_bits()); for v in &vs { emit_peq(sink, "f32", &c, v, "boundary"); } }
    for b in ["t", "f"] { for v in &vs { emit_peq(sink, "bool", b, v, "boundary"); } }
    for s in ["", "1", "a", "true", "-1", "é", "null"] { let c = hexf(s.as_bytes()); for v in &vs { emit_peq(sink, "str", &c, v, "boundary"); } }
    // random: a value and a comparand that is equal to it, next to it, or unrelated
    let n = if thorough { 200000 } else { 20000 };
    for _ in 0..n {
        let v = if r.chance(3, 4) { Value::Number(gen_number(r)) } else { gen_value(r, 1) };
        #[cfg(feature = "ap")]
        let v = if r.chance(1, 2) { serde_json::from_str(&crate::gen::gen_number_text(r)).unwrap_or(v) } else { v };
        let ty = *r.pick(&["i8", "i16", "i32", "i64", "isize", "u8", "u16", "u32", "u64", "usize", "f32", "f64", "bool", "str"]);
        let c: String = match ty {
            "f64" => { let x = match r.below(3) { 0 => v.as_f64().unwrap_or(1.0), 1 => f64::from_bits(v.as_f64().unwrap_or(1.0).to_bits().wrapping_add(1)), _ => f64::from_bits(r.next()) }; format!("{:016x}", x.to_bits()) }
            "f32" => { let x = match r.below(3) { 0 => v.as_f64().unwrap_or(1.0) as f32, 1 => f32::from_bits((v.as_f64().unwrap_or(1.0) as f32).to_bits().wrapping_add(1)), _ => f32::from_bits(r.next() as u32) }; format!("{:08x}", x.to_bits()) }
            "bool" => (if r.chance(1, 2) { "t" } else { "f" }).to_string(),
            "str" => hexf(match (&v, r.below(2)) { (Value::String(s), 0) => s.clone(), _ => gen_string(r) }.as_bytes()),
            _ => {
                let exact: i128 = v.as_i64().map(|x| x as i128).or(v.as_u64().map(|x| x as i128)).unwrap_or(0);
                let x = match r.below(4) { 0 => exact, 1 => exact + 1, 2 => exact - (1i128 << 64), _ => (r.next() >> r.below(64)) as i128 };
                let xs = int_comparands(ty); let (lo, hi) = (xs[0], xs[xs.len() - 1]);
                // keep the comparand inside the type: out-of-range picks fall back to the wrapped value (what a careless cast would give)
                let x = if x < lo || x > hi { let m = hi - lo + 1; lo + (x - lo).rem_euclid(m) } else { x };
                x.to_string()
            }
        };
        emit_peq(sink, ty, &c, &v, "random");
    }
}

// ------------------------------------------------------------------------------------------------
// json!: a generated Rust program, compiled against the tree under check
// ------------------------------------------------------------------------------------------------

/// token tree of a `json!` argument (mirrors `SJ.Spec.JsonMacro.TT`); leaves carry their Rust spelling
#[derive(Clone, Debug)]
enum TT { Null, True, False, Comma, Colon, Lit(Value, String), Expr(Value, String), Paren(Value, String), Arr(Vec<TT>), Obj(Vec<TT>) }

fn enc_tt(t: &TT, out: &mut String) {
    match t {
        TT::Null => out.push('N'), TT::True => out.push('T'), TT::False => out.push('F'), TT::Comma => out.push('c'), TT::Colon => out.push('k'),
        TT::Lit(v, _) => { out.push('L'); enc_value(v, out); }
        TT::Expr(v, _) => { out.push('E'); enc_value(v, out); }
        TT::Paren(v, _) => { out.push('P'); enc_value(v, out); }
        TT::Arr(ts) => { out.push_str(&format!("A{};", ts.len())); for t in ts { enc_tt(t, out); } }
        TT::Obj(ts) => { out.push_str(&format!("O{};", ts.len())); for t in ts { enc_tt(t, out); } }
    }
}

/// Rust constructor code for a Value (used for interpolated `Value`s and for replays)
fn value_code(v: &Value) -> String {
    match v {
        Value::Null => "Value::Null".into(),
        Value::Bool(b) => format!("Value::Bool({})", b),
        Value::Number(n) => {
            if let Some(u) = n.as_u64() { format!("Value::from({}u64)", u) }
            else if let Some(i) = n.as_i64() { format!("Value::from({}i64)", i) }
            else { format!("Value::from(f64::from_bits(0x{:016x}u64))", n.as_f64().unwrap().to_bits()) }
        }
        Value::String(s) => format!("Value::from({:?})", s),
        Value::Array(xs) => format!("Value::Array(vec![{}])", xs.iter().map(value_code).collect::<Vec<_>>().join(", ")),
        Value::Object(m) => format!("{{ let mut m = Map::new(); {} Value::Object(m) }}",
            m.iter().map(|(k, x)| format!("m.insert({:?}.to_string(), {});", k, value_code(x))).collect::<String>()),
    }
}

fn dec_tt(b: &[u8], i: &mut usize) -> Option<TT> {
    fn val(b: &[u8], i: &mut usize) -> Option<Value> {
        // find the extent of one wire value by decoding it with a probe copy
        fn skip(b: &[u8], i: &mut usize) -> Option<()> {
            let c = *b.get(*i)?; *i += 1;
            let semi = |i: &mut usize| -> Option<usize> { let st = *i; while *b.get(*i)? != b';' { *i += 1; } *i += 1; std::str::from_utf8(&b[st..*i - 1]).ok()?.parse().ok() };
            match c {
                b'n' | b't' | b'f' => Some(()),
                b'i' | b'j' | b'l' | b's' => { while *b.get(*i)? != b';' { *i += 1; } *i += 1; Some(()) }
                b'd' => { *i += 16; Some(()) }
                b'a' => { let n = semi(i)?; for _ in 0..n { skip(b, i)?; } Some(()) }
                b'o' => { let n = semi(i)?; for _ in 0..n { skip(b, i)?; skip(b, i)?; } Some(()) }
                _ => None,
            }
        }
        let st = *i; skip(b, i)?;
        Some(dec_value(std::str::from_utf8(&b[st..*i]).ok()?))
    }
    let c = *b.get(*i)?; *i += 1;
    let group = |i: &mut usize| -> Option<Vec<TT>> {
        let st = *i; while *b.get(*i)? != b';' { *i += 1; } *i += 1;
        let n: usize = std::str::from_utf8(&b[st..*i - 1]).ok()?.parse().ok()?;
        (0..n).map(|_| dec_tt(b, i)).collect()
    };
    Some(match c {
        b'N' => TT::Null, b'T' => TT::True, b'F' => TT::False, b'c' => TT::Comma, b'k' => TT::Colon,
        b'L' => { let v = val(b, i)?; let s = default_spelling(&v); TT::Lit(v, s) }
        b'E' => { let v = val(b, i)?; let s = default_spelling(&v); TT::Expr(v, s) }
        b'P' => { let v = val(b, i)?; let s = format!("({})", default_spelling(&v)); TT::Paren(v, s) }
        b'A' => TT::Arr(group(i)?), b'O' => TT::Obj(group(i)?),
        _ => return None,
    })
}

/// a Rust expression evaluating (through `to_value`) to `v`; a string is spelled as a `&str` literal so that it can be a key
fn default_spelling(v: &Value) -> String { match v { Value::String(s) => format!("{:?}", s), _ => value_code(v) } }

fn tt_source(t: &TT, out: &mut String) {
    match t {
        TT::Null => out.push_str("null"), TT::True => out.push_str("true"), TT::False => out.push_str("false"),
        TT::Comma => out.push_str(", "), TT::Colon => out.push_str(": "),
        TT::Lit(_, s) | TT::Expr(_, s) | TT::Paren(_, s) => out.push_str(s),
        TT::Arr(ts) => { out.push('['); for t in ts { tt_source(t, out); } out.push(']'); }
        TT::Obj(ts) => { out.push('{'); for t in ts { tt_source(t, out); } out.push('}'); }
    }
}

/// the equivalent JSON text: leaves printed by the serialiser, commas and colons as written, trailing commas dropped
fn tt_json(t: &TT, out: &mut String) -> bool {
    match t {
        TT::Null => out.push_str("null"), TT::True => out.push_str("true"), TT::False => out.push_str("false"),
        TT::Comma | TT::Colon => return false,
        TT::Lit(v, _) | TT::Expr(v, _) | TT::Paren(v, _) => out.push_str(&serde_json::to_string(v).unwrap()),
        TT::Arr(ts) | TT::Obj(ts) => {
            let is_arr = matches!(t, TT::Arr(_));
            out.push(if is_arr { '[' } else { '{' });
            let n = if matches!(ts.last(), Some(TT::Comma)) { ts.len() - 1 } else { ts.len() };
            for t in &ts[..n] {
                match t {
                    TT::Comma => out.push(','), TT::Colon => out.push(':'),
                    TT::Lit(Value::String(s), _) | TT::Expr(Value::String(s), _) | TT::Paren(Value::String(s), _) => out.push_str(&serde_json::to_string(s).unwrap()),
                    t => if !tt_json(t, out) { return false; },
                }
            }
            out.push(if is_arr { ']' } else { '}' });
        }
    }
    true
}

/// JSON-shaped? (the harness-side twin of `Spec.JsonMacro.shape`, used only to decide whether a text is paired)
fn shaped(t: &TT) -> bool {
    fn is_val(t: &TT) -> bool { !matches!(t, TT::Comma | TT::Colon) && shaped(t) }
    fn is_key(t: &TT) -> bool { matches!(t, TT::Lit(Value::String(_), _) | TT::Expr(Value::String(_), _) | TT::Paren(Value::String(_), _)) }
    match t {
        TT::Comma | TT::Colon => false,
        TT::Arr(ts) => { let mut i = 0; while i < ts.len() { if !is_val(&ts[i]) { return false; } i += 1; if i < ts.len() { if !matches!(ts[i], TT::Comma) { return false; } i += 1; } } true }
        TT::Obj(ts) => { let mut i = 0; while i < ts.len() {
            if i + 2 >= ts.len() || !is_key(&ts[i]) || !matches!(ts[i + 1], TT::Colon) || !is_val(&ts[i + 2]) { return false; }
            i += 3; if i < ts.len() { if !matches!(ts[i], TT::Comma) { return false; } i += 1; } } true }
        _ => true,
    }
}

struct Gen<'a> { r: &'a mut Rng, decls: Vec<String>, nvar: usize }

impl<'a> Gen<'a> {
    fn var(&mut self, ty: &str, init: &str) -> String {
        let name = format!("x{}", self.nvar); self.nvar += 1;
        self.decls.push(if ty.is_empty() { format!("let {} = {};", name, init) } else { format!("let {}: {} = {};", name, ty, init) });
        name
    }
    fn tv<T: serde::Serialize>(x: T) -> Value { serde_json::to_value(&x).unwrap() }
    /// an expression unit in value position
    fn leaf(&mut self) -> TT {
        let r = &mut *self.r;
        match r.below(30) {
            0 => TT::Lit(Self::tv(0), "0".into()),
            1 => { let n = r.below(1000) as i32; TT::Lit(Self::tv(n), n.to_string()) }
            2 => { let n = -(r.below(1000) as i32) - 1; TT::Lit(Self::tv(n), n.to_string()) }                 // two tokens `-` `n`
            3 => { let n = u64::MAX - r.below(3) as u64; TT::Lit(Self::tv(n), format!("{}u64", n)) }
            4 => { let n = i64::MIN + r.below(3) as i64; TT::Lit(Self::tv(n), format!("{}i64", n)) }
            5 => { let f = *r.pick(&[0.5f64, 1.5, -0.0, 0.0, 1e300, 2.5e-7, 123456.789, 1e21, -3.25, 9007199254740993.0]); TT::Lit(Self::tv(f), format!("{:?}", f)) }
            6 => { let s = gen_string(r); TT::Lit(Value::String(s.clone()), format!("{:?}", s)) }
            7 => { let c = *r.pick(&['a', 'é', '"', '\\', '\n', '\u{10348}']); TT::Lit(Value::String(c.to_string()), format!("{:?}", c)) }
            8 => { let n = r.below(200) as i32 - 100; let x = self.var("i32", &n.to_string()); TT::Expr(Self::tv(n), x) }
            9 => { let n = r.next() >> r.below(64); let x = self.var("u64", &n.to_string()); TT::Expr(Self::tv(n), x) }
            10 => { let n = (r.next() >> r.below(64)) as i64; let n = if r.chance(1, 2) { n.wrapping_neg() } else { n }; let x = self.var("i64", &n.to_string()); TT::Expr(Self::tv(n), x) }
            11 => { let n = r.below(256) as u8; let x = self.var("u8", &n.to_string()); TT::Expr(Self::tv(n), x) }
            12 => { let n = (r.below(256) as i32 - 128) as i8; let x = self.var("i8", &n.to_string()); TT::Expr(Self::tv(n), x) }
            // floats are picked among those whose shortest decimal form the default parser reads back exactly (C08's exact class),
            // so that "the equivalent JSON text" denotes the same double
            13 => { let f = *r.pick(&[0.5f32, 1.5, -2.75, 1024.25, -0.0, 16777216.0]); let x = self.var("f32", &format!("{:?}", f)); TT::Expr(Self::tv(f), x) }
            14 => { let f = *r.pick(&[0.1f64, -1.5, 1e-7, 1e21, 2.0, 6.02e23]); let x = self.var("f64", &format!("{:?}", f)); TT::Expr(Self::tv(f), x) }
            15 => { let f = *r.pick(&["f64::NAN", "f64::INFINITY", "f32::NEG_INFINITY"]); let x = self.var("", f); TT::Expr(Value::Null, x) }   // non-finite floats serialise as null
            16 => { let b = r.chance(1, 2); let x = self.var("bool", &b.to_string()); TT::Expr(Value::Bool(b), x) }
            17 => { let s = gen_string(r); let x = self.var("&str", &format!("{:?}", s)); TT::Expr(Value::String(s), x) }
            18 => { let s = gen_string(r); let x = self.var("String", &format!("String::from({:?})", s)); TT::Expr(Value::String(s), x) }
            19 => { let o: Option<i32> = if r.chance(1, 2) { None } else { Some(r.below(50) as i32) }; let x = self.var("Option<i32>", &format!("{:?}", o)); TT::Expr(Self::tv(o), x) }
            20 => { let v: Vec<u8> = (0..r.below(4)).map(|_| r.below(256) as u8).collect(); let x = self.var("Vec<u8>", &format!("vec!{:?}", v)); TT::Expr(Self::tv(&v), x) }
            21 => { let n = r.below(100) as i32; let s = gen_string(r); let x = self.var("(i32, &str)", &format!("({}, {:?})", n, s)); TT::Expr(Self::tv((n, s.as_str())), x) }
            22 => { let x = self.var("()", "()"); TT::Expr(Value::Null, x) }
            23 => { let v = gen_value(r, 2); let x = self.var("Value", &value_code(&v)); TT::Expr(v, x) }
            24 => { let a = r.below(100) as i32; let b = r.below(100) as i32; let x = self.var("i32", &a.to_string()); TT::Expr(Self::tv(a + b), format!("{} + {}", x, b)) }
            25 => { let s = gen_string(r); let x = self.var("&str", &format!("{:?}", s)); TT::Expr(Self::tv(s.len()), format!("{}.len()", x)) }
            26 => { let a = r.below(100) as i32; let x = self.var("i32", &a.to_string()); TT::Paren(Self::tv(a * 2), format!("({} * 2)", x)) }
            27 => { let a = r.below(9) as u8; TT::Expr(Self::tv(vec![a, a + 1]), format!("vec![{}u8, {}]", a, a + 1)) }     // a macro call with a comma inside its group
            28 => { let b = r.chance(1, 2); let x = self.var("bool", &b.to_string()); TT::Expr(Self::tv(if b { 1 } else { 2 }), format!("if {} {{ 1 }} else {{ 2 }}", x)) }
            _ => { let n = r.below(50) as i64; let x = self.var("i64", &n.to_string()); TT::Expr(Self::tv(-n), format!("-{}", x)) }
        }
    }
    /// an expression unit in key position (its value is a string)
    fn key(&mut self, pool: &[String]) -> TT {
        let s = if self.r.chance(3, 4) { self.r.pick(pool).clone() } else { gen_string(self.r) };
        let v = Value::String(s.clone());
        match self.r.below(9) {
            0 | 1 | 2 | 3 => TT::Lit(v, format!("{:?}", s)),
            4 => { let x = self.var("&str", &format!("{:?}", s)); TT::Expr(v, x) }
            5 => { let x = self.var("String", &format!("String::from({:?})", s)); TT::Expr(v, x) }
            6 => { let x = self.var("&str", &format!("{:?}", s)); TT::Paren(v, format!("({})", x)) }
            7 => TT::Paren(v, format!("(format!(\"{{}}{{}}\", {:?}, {:?}))", &s[..s.char_indices().nth(1).map(|p| p.0).unwrap_or(s.len())], &s[s.char_indices().nth(1).map(|p| p.0).unwrap_or(s.len())..])),
            _ => { let mut cs = s.chars(); match (cs.next(), cs.next()) { (Some(c), None) => TT::Lit(v, format!("{:?}", c)), _ => TT::Paren(v, format!("({:?}.to_string())", s)) } }
        }
    }
    fn value(&mut self, depth: usize) -> TT { self.value_or_container(depth, false) }
    fn value_or_container(&mut self, depth: usize, container: bool) -> TT {
        let k = if depth == 0 { self.r.below(6) } else if container { 6 + self.r.below(6) } else { self.r.below(12) };
        match k {
            0 => TT::Null, 1 => TT::True, 2 => TT::False,
            3 | 4 | 5 => self.leaf(),
            6 | 7 | 8 => {
                let n = if self.r.chance(1, 6) { 0 } else { 1 + self.r.below(5) };
                let mut ts = vec![];
                for i in 0..n { ts.push(self.value(depth - 1)); if i + 1 < n || self.r.chance(1, 3) { ts.push(TT::Comma); } }
                TT::Arr(ts)
            }
            _ => {
                let n = if self.r.chance(1, 6) { 0 } else { 1 + self.r.below(5) };
                let pool: Vec<String> = (0..3).map(|_| self.r.pick(KEYS).to_string()).collect();      // small pool: duplicates are frequent
                let mut ts = vec![];
                for i in 0..n {
                    ts.push(self.key(&pool)); ts.push(TT::Colon); ts.push(self.value(depth - 1));
                    if i + 1 < n || self.r.chance(1, 3) { ts.push(TT::Comma); }
                }
                TT::Obj(ts)
            }
        }
    }
}

struct Invocation { tt: TT, decls: Vec<String>, tag: String }

fn tag_of(t: &TT) -> String {
    fn walk(t: &TT, depth: usize, maxd: &mut usize, dup: &mut bool, trail: &mut bool, interp: &mut bool, paren: &mut bool) {
        *maxd = (*maxd).max(depth);
        match t {
            TT::Expr(..) => *interp = true,
            TT::Paren(..) => *paren = true,
            TT::Arr(ts) | TT::Obj(ts) => {
                if matches!(ts.last(), Some(TT::Comma)) { *trail = true; }
                if let TT::Obj(_) = t {
                    let mut seen = std::collections::HashSet::new();
                    let mut i = 0;
                    while i < ts.len() { if let TT::Lit(Value::String(s), _) | TT::Expr(Value::String(s), _) | TT::Paren(Value::String(s), _) = &ts[i] { if !seen.insert(s.clone()) { *dup = true; } } i += 4; }
                }
                for t in ts { walk(t, depth + 1, maxd, dup, trail, interp, paren); }
            }
            _ => {}
        }
    }
    let (mut d, mut dup, mut trail, mut interp, mut paren) = (0, false, false, false, false);
    walk(t, 0, &mut d, &mut dup, &mut trail, &mut interp, &mut paren);
    format!("json:depth{}{}{}{}{}", d, if dup { ":dupkey" } else { "" }, if trail { ":trailing" } else { "" }, if interp { ":interp" } else { "" }, if paren { ":paren" } else { "" })
}

const SCRATCH_MAIN_PRELUDE: &str = r##"// GENERATED by `sjh` (harness/src/c18.rs) — json! invocations compiled against the tree under check
#![allow(warnings)]
#![recursion_limit = "1024"]
mod common;
use common::*;
use serde_json::{json, Map, Value};
fn cfg_tag() -> String {
    let mut v: Vec<&str> = vec![];
    if cfg!(feature = "po") { v.push("po"); }
    if cfg!(feature = "fr") { v.push("fr"); }
    if cfg!(feature = "ap") { v.push("ap"); }
    if v.is_empty() { "d".into() } else { v.join("+") }
}
fn show_err(e: &serde_json::Error) -> String {
    let full = e.to_string();
    let msg = match full.rfind(" at line ") { Some(i) if e.line() != 0 => &full[..i], _ => &full[..] };
    let cat = match e.classify() { serde_json::error::Category::Io => "io", serde_json::error::Category::Syntax => "syntax",
                                    serde_json::error::Category::Data => "data", serde_json::error::Category::Eof => "eof" };
    format!("E:{}:{}:{}:{}", hex(msg.as_bytes()), cat, e.line(), e.column())
}
fn emit(tt: &str, text: Option<&str>, built: Value) {
    let cfg = cfg_tag();
    println!("jsonm {} {} => S{}", cfg, tt, enc(&built));
    if let Some(text) = text {
        let o = match serde_json::from_str::<Value>(text) { Ok(v) => format!("V{}", enc(&v)), Err(e) => show_err(&e) };
        println!("jsonp {} {} {} => {}", cfg, tt, hexf(text.as_bytes()), o);
    }
}
"##;

fn work_dir() -> std::path::PathBuf {
    if let Ok(w) = std::env::var("SJH_WORK") { return w.into(); }
    // <root>/harness/target-<cfg>[-<hash>]/release/sjh  ->  <root>/work
    let exe = std::env::current_exe().expect("current_exe");
    exe.ancestors().nth(4).expect("harness binary outside the framework tree").join("work")
}

/// write the scratch crate, `cargo run` it, return its stdout lines (or the first compiler error)
fn build_and_run(invs: &[Invocation], key: &str) -> Result<Vec<String>, String> {
    let repo = std::env::var("VERIF_REPO").unwrap_or_else(|_| "/repo".into());
    let cfg = crate::obs::cfg_tag().replace('+', "");
    let mut h: u64 = 0xcbf29ce484222325; for b in repo.bytes() { h = (h ^ b as u64).wrapping_mul(0x100000001b3); }
    let tree = if std::fs::canonicalize(&repo).map(|p| p == std::path::Path::new("/repo")).unwrap_or(false) { String::new() } else { format!("-{:08x}", h as u32) };
    let work = work_dir();
    let dir = work.join(format!("jsonm-{}{}-{}", cfg, tree, key));
    let target = work.join(format!("jsonm-target-{}{}", cfg, tree));
    std::fs::create_dir_all(dir.join("src")).map_err(|e| format!("mkdir: {}", e))?;
    let feats: Vec<&str> = ["po", "fr", "ap"].iter().copied().filter(|f| crate::obs::cfg_tag().split('+').any(|x| x == *f)).collect();
    // the package (hence the binary in the shared target dir) is named after the key: `cargo run` must never pick up another key's binary
    let manifest = format!("[package]\nname = \"jsonm-{}\"\nversion = \"0.1.0\"\nedition = \"2021\"\n\n[workspace]\n\n[dependencies]\nserde_json = {{ path = {:?} }}\nserde = \"1.0.194\"\n\n\
        [features]\nfr = [\"serde_json/float_roundtrip\"]\npo = [\"serde_json/preserve_order\"]\nap = [\"serde_json/arbitrary_precision\"]\nrv = []\nud = []\n\n\
        [profile.release]\nopt-level = 0\ndebug = false\nincremental = false\ncodegen-units = 16\noverflow-checks = true\n", key, repo);
    let mut src = String::from(SCRATCH_MAIN_PRELUDE);
    let per_fn = 25;
    for (fi, chunk) in invs.chunks(per_fn).enumerate() {
        src.push_str(&format!("#[inline(never)] fn g{}() {{\n", fi));
        for inv in chunk {
            let mut tte = String::new(); enc_tt(&inv.tt, &mut tte);
            let mut code = String::new(); tt_source(&inv.tt, &mut code);
            let mut text = String::new();
            let paired = shaped(&inv.tt) && tt_json(&inv.tt, &mut text);
            src.push_str("    { ");
            for d in &inv.decls { src.push_str(d); src.push(' '); }
            src.push_str(&format!("emit({:?}, {}, json!({})); }}\n", tte, if paired { format!("Some({:?})", text) } else { "None".into() }, code));
        }
        src.push_str("}\n");
    }
    src.push_str("fn main() {\n");
    for fi in 0..(invs.len() + per_fn - 1) / per_fn { src.push_str(&format!("    g{}();\n", fi)); }
    src.push_str("}\n");
    let write = |p: std::path::PathBuf, s: &str| { if std::fs::read_to_string(&p).ok().as_deref() != Some(s) { std::fs::write(&p, s).map_err(|e| format!("write {:?}: {}", p, e)) } else { Ok(()) } };
    write(dir.join("Cargo.toml"), &manifest)?;
    if !dir.join("Cargo.lock").exists() { write(dir.join("Cargo.lock"), include_str!("../Cargo.lock"))?; }
    write(dir.join("src").join("common.rs"), include_str!("common.rs"))?;
    write(dir.join("src").join("main.rs"), &src)?;
    let mut cmd = std::process::Command::new("cargo");
    cmd.args(["run", "--release", "--offline", "--quiet"]).current_dir(&dir)
        .env("CARGO_TARGET_DIR", &target).env("RUSTFLAGS", "-Awarnings").env("CARGO_NET_OFFLINE", "true");
    if !feats.is_empty() { cmd.arg("--features").arg(feats.join(",")); }
    let out = cmd.output().map_err(|e| format!("cargo: {}", e))?;
    if !out.status.success() {
        let err = String::from_utf8_lossy(&out.stderr);
        let first = err.lines().find(|l| l.starts_with("error")).unwrap_or("error: (no message)").to_string();
        let _ = std::fs::write(dir.join("build-error.log"), err.as_bytes());
        return Err(first);
    }
    Ok(String::from_utf8_lossy(&out.stdout).lines().map(|l| l.to_string()).collect())
}

/// feed the lines the generated program printed into the sink
fn forward(sink: &mut Sink, invs: &[Invocation], key: &str) {
    let cfg = crate::obs::cfg_tag();
    let count = invs.len().to_string();
    match build_and_run(invs, key) {
        Err(e) => sink.case("jsonmbuild", &[&cfg, &count], &format!("E{}", hexf(e.as_bytes())), "jsonmbuild:failed", true),
        Ok(lines) => {
            // the program must report every invocation exactly once (guards against a stale or truncated run)
            let got = lines.iter().filter(|l| l.starts_with("jsonm ")).count();
            if got != invs.len() {
                let e = format!("error: the generated program printed {} json! results for {} invocations", got, invs.len());
                sink.case("jsonmbuild", &[&cfg, &count], &format!("E{}", hexf(e.as_bytes())), "jsonmbuild:count", true);
                return;
            }
            sink.case("jsonmbuild", &[&cfg, &count], "OK", "jsonmbuild:ok", true);
            let mut k = 0usize;     // index of the invocation the next `jsonm` line belongs to
            for line in lines {
                let Some((lhs, obs)) = line.split_once(" => ") else { continue };
                let toks: Vec<&str> = lhs.split(' ').collect();
                let tag = invs.get(if toks[0] == "jsonm" { k } else { k.saturating_sub(1) }).map(|i| i.tag.clone()).unwrap_or_else(|| "json:?".into());
                if toks[0] == "jsonm" { k += 1; }
                let nt = !tag.starts_with("json:depth0");
                sink.case(toks[0], &toks[1..], obs, &format!("{}:{}", toks[0], &tag[5..]), nt);
            }
        }
    }
}

fn fixed_invocations() -> Vec<Invocation> {
    let s = |x: &str| TT::Lit(Value::String(x.into()), format!("{:?}", x));
    let n = |x: i32| TT::Lit(Value::from(x), x.to_string());
    let mk = |tt: TT| Invocation { tag: tag_of(&tt), tt, decls: vec![] };
    vec![
        mk(TT::Null), mk(TT::True), mk(TT::False), mk(n(1)), mk(n(-1)), mk(s("x")), mk(TT::Arr(vec![])), mk(TT::Obj(vec![])),
        mk(TT::Arr(vec![TT::Null])), mk(TT::Arr(vec![TT::Null, TT::Comma])), mk(TT::Arr(vec![n(1), TT::Comma, n(2)])), mk(TT::Arr(vec![n(1), TT::Comma, n(2), TT::Comma])),
        mk(TT::Arr(vec![TT::Arr(vec![]), TT::Comma, TT::Obj(vec![]), TT::Comma, TT::Arr(vec![TT::Obj(vec![])])])),
        mk(TT::Obj(vec![s("a"), TT::Colon, n(1)])), mk(TT::Obj(vec![s("a"), TT::Colon, n(1), TT::Comma])),
        // duplicate keys: the last one wins, at the first one's position under preserve_order
        mk(TT::Obj(vec![s("b"), TT::Colon, n(1), TT::Comma, s("a"), TT::Colon, n(2), TT::Comma, s("b"), TT::Colon, n(3)])),
        mk(TT::Obj(vec![s("k"), TT::Colon, TT::Null, TT::Comma, s("k"), TT::Colon, TT::True, TT::Comma, s("k"), TT::Colon, TT::Arr(vec![]), TT::Comma])),
        mk(TT::Obj(vec![TT::Paren(Value::String("p".into()), "(\"p\")".into()), TT::Colon, TT::Obj(vec![s(""), TT::Colon, TT::False])])),
        // outside the JSON shape, still accepted by the rules: a leading comma in an array (rule A10 on the empty accumulator)
        mk(TT::Arr(vec![TT::Comma, n(1)])), mk(TT::Arr(vec![TT::Comma, TT::Null, TT::Comma])),
    ]
}

fn run_jsonm(sink: &mut Sink, thorough: bool, seed: u64, r: &mut Rng) {
    let mut invs = fixed_invocations();
    let n = if thorough { 20000 } else { 2000 };
    for _ in 0..n {
        let mut g = Gen { r: &mut *r, decls: vec![], nvar: 0 };
        let depth = 1 + g.r.below(3);
        let top_container = !g.r.chance(1, 10);
        let tt = g.value_or_container(depth, top_container);
        let decls = std::mem::take(&mut g.decls);
        invs.push(Invocation { tag: tag_of(&tt), tt, decls });
    }
    forward(sink, &invs, &format!("{}-{}", if thorough { "t" } else { "q" }, seed));
}

/// replay: rebuild a one-invocation program from the token tree on the wire
fn replay_jsonm(sink: &mut Sink, toks: &[&str]) {
    if toks[0] == "jsonmbuild" || toks.len() < 3 { return; }
    let b = toks[2].as_bytes(); let mut i = 0;
    let Some(tt) = dec_tt(b, &mut i) else { return };
    let inv = Invocation { tag: tag_of(&tt), tt, decls: vec![] };
    let mut hsh = std::collections::hash_map::DefaultHasher::new();
    std::hash::Hash::hash(toks[2], &mut hsh);
    let key = format!("r-{:016x}", std::hash::Hasher::finish(&hsh));
    match build_and_run(std::slice::from_ref(&inv), &key) {
        Err(e) => sink.case("jsonmbuild", &[&crate::obs::cfg_tag(), "1"], &format!("E{}", hexf(e.as_bytes())), "replay", true),
        Ok(lines) => for line in lines {
            let Some((lhs, obs)) = line.split_once(" => ") else { continue };
            let t: Vec<&str> = lhs.split(' ').collect();
            if t[0] == toks[0] { sink.case(t[0], &t[1..], obs, "replay", true); }
        }
    }
}
