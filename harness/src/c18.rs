//! C18: Value::pointer / pointer_mut / parse_index against the RFC 6901 evaluator.
use crate::common::*;
use serde_json::Value;

fn obs_ptr(v: &Value, p: &str) -> String {
    match v.pointer(p) { None => "N".into(), Some(x) => format!("S{}", enc(x)) }
}
/// pointer_mut: overwrite the addressed node with a sentinel and report the whole document
fn obs_ptrmut(v: &Value, p: &str) -> String {
    let mut w = v.clone();
    match w.pointer_mut(p) {
        None => "N".into(),
        Some(x) => { *x = Value::String("#".into()); format!("S{}", enc(&w)) }
    }
}

fn emit(sink: &mut Sink, v: &Value, p: &str, tag: &str) {
    let e = enc(v); let h = hexf(p.as_bytes());
    let o = obs_ptr(v, p);
    let nt = p.len() > 1;
    let t = format!("{}:{}", tag, if o == "N" { "none" } else { "some" });
    sink.case("ptr", &[&e, &h], &o, &t, nt);
    let o2 = obs_ptrmut(v, p);
    sink.case("ptrmut", &[&e, &h], &o2, &format!("mut-{}", t), nt);
}

pub fn replay(sink: &mut Sink, toks: &[&str]) {
    if toks.len() < 3 { return; }
    let v = crate::common::dec_value(toks[1]);
    let p = String::from_utf8(unhex(toks[2])).unwrap();
    match toks[0] {
        "ptr" => { let o = obs_ptr(&v, &p); sink.case("ptr", &[toks[1], toks[2]], &o, "replay", true) }
        _ => { let o = obs_ptrmut(&v, &p); sink.case("ptrmut", &[toks[1], toks[2]], &o, "replay", true) }
    }
}

fn esc_variants(k: &str, r: &mut Rng) -> String {
    // escaped spelling; sometimes deliberately wrong order / unescaped
    match r.below(8) {
        0 => k.to_string(),                                   // raw (wrong if it has ~ or /)
        1 => k.replace('/', "~1").replace('~', "~0"),         // wrong order
        _ => k.replace('~', "~0").replace('/', "~1"),         // RFC order
    }
}

fn all_paths(v: &Value, cur: String, out: &mut Vec<String>, r: &mut Rng) {
    out.push(cur.clone());
    match v {
        Value::Array(xs) => for (i, x) in xs.iter().enumerate() { all_paths(x, format!("{}/{}", cur, i), out, r); },
        Value::Object(m) => for (k, x) in m { let e = esc_variants(k, r); all_paths(x, format!("{}/{}", cur, e), out, r); },
        _ => {}
    }
}

fn mutate(p: &str, r: &mut Rng) -> String {
    let alpha = ['/', '~', '0', '1', 'a', '-', '+', '2', '9', 'é'];
    let mut cs: Vec<char> = p.chars().collect();
    match r.below(4) {
        0 if !cs.is_empty() => { let i = r.below(cs.len()); cs.remove(i); }
        1 => { let i = r.below(cs.len() + 1); cs.insert(i, *r.pick(&alpha)); }
        2 if !cs.is_empty() => { let i = r.below(cs.len()); cs[i] = *r.pick(&alpha); }
        _ => { cs.push('/'); cs.push(*r.pick(&alpha)); }
    }
    cs.into_iter().collect()
}

pub fn run(sink: &mut Sink, thorough: bool, seed: u64) {
    let mut r = Rng::new(seed);
    // fixed corpus: index edge cases on a 12-element array and an object with index-like keys
    let arr = Value::Array((0..12).map(Value::from).collect());
    for p in ["", "/", "/0", "/00", "/01", "/1", "/11", "/12", "/011", "/+1", "/-", "/-1", "/1e0", "/ 1", "/1 ", "/٣",
              "/18446744073709551615", "/18446744073709551616", "/00000000000000000000000001", "/0/", "//", "0", "/1/0", "/99999999999999999999999999999"] {
        emit(sink, &arr, p, "idx");
    }
    let ob: Value = serde_json::from_str(r#"{"":{"":1,"~":2,"/":3},"~":4,"/":5,"~0":6,"~1":7,"a/b":[8,{"m~n":9}],"~01":10,"~10":11,"0":12,"01":13,"-":14,"+1":15,"~~":16,"~2":17}"#).unwrap();
    for p in ["", "/", "//", "//~0", "//~1", "/~0", "/~1", "/~00", "/~01", "/~001", "/~010", "/~0~1", "/~1~0", "/a~1b", "/a~1b/1/m~0n", "/a/b",
              "/~", "/~2", "/~~", "/~0~0", "/0", "/01", "/-", "/+1", "/~01", "/~10", "/~", "a", "~0", "/a~1b/01", "/a~1b/1/", "/~0/"] {
        emit(sink, &ob, p, "esc");
    }
    // exhaustive short pointers over a small alphabet against `ob` and `arr`
    let alpha: &[u8] = b"/~01a-";
    let maxlen = if thorough { 6 } else { 5 };
    for len in 1..=maxlen {
        let total = alpha.len().pow(len as u32);
        for mut i in 0..total {
            let mut s = Vec::with_capacity(len);
            for _ in 0..len { s.push(alpha[i % alpha.len()]); i /= alpha.len(); }
            let p = String::from_utf8(s).unwrap();
            emit(sink, &ob, &p, "exh");
            if len <= 4 { emit(sink, &arr, &p, "exh-arr"); }
        }
    }
    // random documents: every existing path (escaped spellings), mutated, random
    let docs = if thorough { 20000 } else { 1500 };
    for _ in 0..docs {
        let v = gen_value(&mut r, 3);
        let mut paths = vec![];
        all_paths(&v, String::new(), &mut paths, &mut r);
        for p in &paths {
            emit(sink, &v, p, "path");
            if r.chance(1, 2) { let q = mutate(p, &mut r); emit(sink, &v, &q, "mutated"); }
        }
        for _ in 0..3 {
            let n = r.below(7);
            let q: String = (0..n).map(|_| *r.pick(&['/', '~', '0', '1', 'a', '-', '+', 'b'])).collect();
            emit(sink, &v, &q, "random");
        }
    }
}
