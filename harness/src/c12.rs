//! C12: StreamDeserializer histories (next / byte_offset), Value and IgnoredAny items, three sources.
use crate::common::*;
use crate::gen::*;
use crate::obs::*;
use serde::de::IgnoredAny;
use serde_json::{Deserializer, Value};

fn item_value(r: Option<serde_json::Result<Value>>) -> (String, bool) {
    match r { None => ("N".into(), false), Some(Ok(v)) => (format!("V{}", enc(&v)), false), Some(Err(e)) => (show_err(&e), true) }
}
fn item_ignored(r: Option<serde_json::Result<IgnoredAny>>) -> (String, bool) {
    match r { None => ("N".into(), false), Some(Ok(_)) => ("U".into(), false), Some(Err(e)) => (show_err(&e), true) }
}

macro_rules! hist {
    ($stream:expr, $item:ident, $calls:expr) => {{
        let mut s = $stream;
        let mut out: Vec<String> = vec![];
        let mut after_err = false;
        for _ in 0..$calls {
            let (o, is_err) = $item(s.next());
            let off = s.byte_offset();
            if o == "N" && after_err { out.push("N".into()); } else { out.push(format!("{}@{}", o, off)); }
            if is_err { after_err = true; }
        }
        out.join(",")
    }};
}

pub fn history(tgt: &str, src: &str, b: &[u8], calls: usize) -> String {
    let b = b.to_vec(); let tgt = tgt.to_string(); let src = src.to_string();
    std::panic::catch_unwind(move || {
        match (tgt.as_str(), src.as_str()) {
            ("value", "str") => hist!(Deserializer::from_str(std::str::from_utf8(&b).unwrap()).into_iter::<Value>(), item_value, calls),
            ("value", "slice") => hist!(Deserializer::from_slice(&b).into_iter::<Value>(), item_value, calls),
            ("value", _) => hist!(Deserializer::from_reader(Chunked::new(&b, vec![2, 1, 3])).into_iter::<Value>(), item_value, calls),
            (_, "str") => hist!(Deserializer::from_str(std::str::from_utf8(&b).unwrap()).into_iter::<IgnoredAny>(), item_ignored, calls),
            (_, "slice") => hist!(Deserializer::from_slice(&b).into_iter::<IgnoredAny>(), item_ignored, calls),
            _ => hist!(Deserializer::from_reader(Chunked::new(&b, vec![2, 1, 3])).into_iter::<IgnoredAny>(), item_ignored, calls),
        }
    }).unwrap_or_else(|_| "PANIC".into())
}

pub fn emit(sink: &mut Sink, cfg: &str, b: &[u8], calls: usize, tag: &str) {
    for tgt in ["value", "ignored"] {
        for src in ["str", "slice", "reader"] {
            if src == "str" && std::str::from_utf8(b).is_err() { continue; }
            let o = history(tgt, src, b, calls);
            let class = if o.contains(":syntax:") { "syntax" } else if o.contains(":eof:") { "eof" } else { "clean" };
            sink.case("stream", &[cfg, tgt, src, &calls.to_string(), &hexf(b)], &o, &format!("{}:{}:{}:{}", tag, tgt, src, class), b.len() > 1);
        }
    }
}

pub fn replay(sink: &mut Sink, toks: &[&str]) {
    if toks.len() < 6 { return; }
    let cfg = cfg_tag();
    let b = unhex(toks[5]);
    let calls: usize = toks[4].parse().unwrap_or(4);
    let o = history(toks[2], toks[3], &b, calls);
    sink.case("stream", &[&cfg, toks[2], toks[3], toks[4], toks[5]], &o, "replay", true);
}

pub fn run(sink: &mut Sink, thorough: bool, seed: u64) {
    let mut r = Rng::new(seed);
    let cfg = cfg_tag();
    for s in ["", " ", "1", "1 ", "1 2", "12 3", "1x", "1,2", "[1][2]", "[0] [1] [", "{\"k\": 3}1\"cool\"\"stuff\" 3{}  [0, 1, 2]", "true false", "truefalse", "nullnull",
              "null[]", "\"a\"\"b\"", "1\"a\"", "1.5e3 ", "-", "1e", "\"\\u12", "\"\\ud800", "\"\\ud800\\u", "[1,", "{\"a\"", "1]", "1}", "1:", "tru", "truex", "0 1 2 3 4 5 6", "\n1\n2\n",
              "1e999 2", "[1e999] 2", "\"\\ud800\" 1", "1/2", "1-2", "1+2", "1.2.3", "1e5e5", "[] x", "x"] {
        emit(sink, &cfg, s.as_bytes(), 5, "corpus");
    }
    // exhaustive short token sequences
    let toks = tokens();
    for len in 1..=(if thorough { 3 } else { 2 }) {
        let mut inputs: Vec<Vec<u8>> = vec![];
        exhaustive(&toks, len, 0, 1, |b| inputs.push(b.to_vec()));
        for b in inputs { emit(sink, &cfg, &b, len + 3, &format!("exh{}", len)); }
    }
    // concatenations of generated values with every separator choice, truncated and corrupted
    let n = if thorough { 6000 } else { 600 };
    for _ in 0..n {
        let k = 1 + r.below(4);
        let mut s: Vec<u8> = vec![];
        for i in 0..k {
            let mut v = vec![]; gen_doc_into(&mut r, 2, &mut v);
            if i > 0 || r.chance(1, 3) { match r.below(4) { 0 => {}, 1 => s.push(b' '), 2 => s.push(b'\n'), _ => s.extend_from_slice(b" \t") } }
            s.extend_from_slice(&v);
        }
        if r.chance(1, 3) { s.push(*r.pick(&[b' ', b'\n'])); }
        emit(sink, &cfg, &s, k + 3, "concat");
        if r.chance(1, 2) && !s.is_empty() { let cut = r.below(s.len()); emit(sink, &cfg, &s[..cut], k + 3, "truncated"); }
        if r.chance(1, 2) { let m = mutate(&s, &mut r); emit(sink, &cfg, &m, k + 3, "corrupted"); }
    }
}
