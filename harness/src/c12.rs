//! C12: StreamDeserializer histories (next / byte_offset), Value and IgnoredAny items, three sources.
use crate::common::*;
use crate::gen::*;
use crate::obs::*;
use serde::de::IgnoredAny;
use serde_json::{Deserializer, Value};

fn item_value(r: Option<serde_json::Result<Value>>) -> (String, bool) {
    match r { None => ("N".into(), false), Some(Ok(v)) => (format!("V{}", enc(&v)), false), Some(Err(e)) => (show_err(&e), true) }
}
fn item_ignored(r: Option<serde_json::Result<IgnoredAny>>) -> (String, bool) {
    match r { None => ("N".into(), false), Some(Ok(_)) => ("U".into(), false), Some(Err(e)) => (show_err(&e), true) }
}

macro_rules! hist {
    ($stream:expr, $item:ident, $calls:expr) => {{
        let mut s = $stream;
        let mut out: Vec<String> = vec![];
        let mut after_err = false;
        for _ in 0..$calls {
            let (o, is_err) = $item(s.next());
            let off = s.byte_offset();
            if o == "N" && after_err { out.push("N".into()); } else { out.push(format!("{}@{}", o, off)); }
            if is_err { after_err = true; }
        }
        out.join(",")
    }};
}

pub fn history(tgt: &str, src: &str, b: &[u8], calls: usize) -> String {
    let b = b.to_vec(); let tgt = tgt.to_string(); let src = src.to_string();
    std::panic::catch_unwind(move || {
        match (tgt.as_str(), src.as_str()) {
            ("value", "str") => hist!(Deserializer::from_str(std::str::from_utf8(&b).unwrap()).into_iter::<Value>(), item_value, calls),
            ("value", "slice") => hist!(Deserializer::from_slice(&b).into_iter::<Value>(), item_value, calls),
            ("value", _) => hist!(Deserializer::from_reader(Chunked::new(&b, vec![2, 1, 3])).into_iter::<Value>(), item_value, calls),
            (_, "str") => hist!(Deserializer::from_str(std::str::from_utf8(&b).unwrap()).into_iter::<IgnoredAny>(), item_ignored, calls),
            (_, "slice") => hist!(Deserializer::from_slice(&b).into_iter::<IgnoredAny>(), item_ignored, calls),
            _ => hist!(Deserializer::from_reader(Chunked::new(&b, vec![2, 1, 3])).into_iter::<IgnoredAny>(), item_ignored, calls),
        }
    }).unwrap_or_else(|_| "PANIC".into())
}

pub fn emit(sink: &mut Sink, cfg: &str, b: &[u8], calls: usize, tag: &str) {
    for tgt in ["value", "ignored"] {
        for src in ["str", "slice", "reader"] {
            if src == "str" && std::str::from_utf8(b).is_err() { continue; }
            let o = history(tgt, src, b, calls);
            let class = if o.contains(":syntax:") { "syntax" } else if o.contains(":eof:") { "eof" } else { "clean" };
            sink.case("stream", &[cfg, tgt, src, &calls.to_string(), &hexf(b)], &o, &format!("{}:{}:{}:{}", tag, tgt, src, class), b.len() > 1);
        }
    }
}

pub fn replay(sink: &mut Sink, toks: &[&str]) {
    if toks.len() < 6 { return; }
    let cfg = cfg_tag();
    let b = unhex(toks[5]);
    let calls: usize = toks[4].parse().unwrap_or(4);
    // a case recorded after `disable_recursion_limit()` (configuration token `…+nolimit`, feature unbounded_depth) or with deep items
    if toks[1].contains("nolimit") || b.len() > 400 {
        let nolimit = toks[1].contains("nolimit");
        let (b2, t2, s2) = (b.clone(), toks[2].to_string(), toks[3].to_string());
        let o = std::thread::Builder::new().stack_size(256 << 20).spawn(move || crate::streamraw::history(&t2, &s2, &b2, calls, vec![2, 1, 3], nolimit))
            .unwrap().join().unwrap_or("PANIC".into());
        let cfgs = if nolimit { format!("{}+nolimit", cfg) } else { cfg.clone() };
        sink.case("stream", &[&cfgs, toks[2], toks[3], toks[4], toks[5]], &o, "replay", true);
        return;
    }
    let o = history(toks[2], toks[3], &b, calls);
    sink.case("stream", &[&cfg, toks[2], toks[3], toks[4], toks[5]], &o, "replay", true);
}

/// Tag `long-stream`: every item is independent of the call history — also of what earlier items left in the Deserializer's
/// scratch buffer, which lives across `next()` calls. Streams of 2–4 long decimals (the significand overflows u64 while the
/// fraction is read), 20+-digit integers, long numbers with exponents, short numbers, and strings (the reader source copies
/// every string into the scratch buffer, str / slice only strings with an escape) or containers holding them, followed by long
/// decimals; every separator; all three sources (through `emit`).
fn long_streams(sink: &mut Sink, cfg: &str, r: &mut Rng, thorough: bool) {
    const LONG: [&str; 12] = ["0.12345678901234567890123", "0.98765432109876543210987", "3.141592653589793238462643383279",
        "0.3000000000000000444089209850062616169452667236328125", "18446744073709551616", "123456789012345678901", "-340282366920938463463374607431768211456",
        "12345678901234567890.5", "-0.00000123456789012345678901234", "1.2345678901234567890123e5", "99999999999999999999e-7", "1844674407370955161.55555"];
    const STRS: [&str; 8] = ["\"x\"", "\"line\\nbreak\"", "\"42\"", "\"\\u0031\"", "{\"k\\t\":\"v\"}", "[\"a\",1,null]", "\"0.5\\u0000\"", "{\"\\u0039\":1}"];
    const SHORT: [&str; 6] = ["0.5", "1e3", "12345678901234567890", "-0.0", "7", "null"];
    for a in LONG.iter() { for b in LONG.iter() {
        for sep in [" ", "\n"] { emit(sink, cfg, format!("{}{}{}", a, sep, b).as_bytes(), 4, "long-stream"); }
    } }
    for s in STRS.iter() { for a in LONG.iter() {
        emit(sink, cfg, format!("{} {}", s, a).as_bytes(), 4, "long-stream-str");
        emit(sink, cfg, format!("{}[{}]", s, a).as_bytes(), 4, "long-stream-str");
    } }
    for _ in 0..(if thorough { 3000 } else { 300 }) {
        let k = 2 + r.below(3);
        let mut d = String::new();
        let mut has_str = false;
        for i in 0..k {
            let item: String = match r.below(10) {
                0 | 1 | 2 | 3 | 4 => {
                    // a fresh long number: 20–34 digits, the point anywhere (or none), sometimes an exponent
                    let n = 20 + r.below(15);
                    let mut ds = String::new(); ds.push((b'1' + r.below(9) as u8) as char); for _ in 1..n { ds.push((b'0' + r.below(10) as u8) as char); }
                    let mut s = match r.below(4) { 0 => ds, 1 => format!("0.{}", ds), _ => { let j = 1 + r.below(n - 1); format!("{}.{}", &ds[..j], &ds[j..]) } };
                    if r.chance(1, 4) { s.push_str(&format!("e{}", r.below(40) as i32 - 20)); }
                    if r.chance(1, 5) { format!("-{}", s) } else { s }
                }
                5 | 6 => (*r.pick(&LONG)).to_string(),
                7 => { has_str = true; (*r.pick(&STRS)).to_string() }
                8 => format!("[{},{}]", r.pick(&LONG), r.pick(&LONG)),
                _ => (*r.pick(&SHORT)).to_string(),
            };
            if i > 0 { d.push_str(*r.pick(&[" ", "\n", "\t", " \r\n", " "])); }
            d.push_str(&item);
        }
        if r.chance(1, 3) { d.push('\n'); }
        emit(sink, cfg, d.as_bytes(), k + 2, if has_str { "long-stream-str" } else { "long-stream" });
    }
}

/// one `stream` case per target and source through `streamraw::history` (which calls `disable_recursion_limit()` before `into_iter()` when
/// `nolimit`, feature unbounded_depth) on a thread with a big stack; the configuration token gets `+nolimit` then
fn emit_deep(sink: &mut Sink, cfg: &str, b: &[u8], calls: usize, nolimit: bool, tag: &str) {
    let cfgs = if nolimit { format!("{}+nolimit", cfg) } else { cfg.to_string() };
    for tgt in ["value", "ignored"] {
        for src in ["str", "slice", "reader"] {
            let (b2, t2, s2) = (b.to_vec(), tgt.to_string(), src.to_string());
            let o = std::thread::Builder::new().stack_size(256 << 20).spawn(move || crate::streamraw::history(&t2, &s2, &b2, calls, vec![2, 1, 3], nolimit))
                .unwrap().join().unwrap_or("PANIC".into());
            let class = if o.contains(":syntax:") { "syntax" } else if o.contains(":eof:") { "eof" } else if o.contains("PANIC") { "panic" } else { "clean" };
            sink.case("stream", &[&cfgs, tgt, src, &calls.to_string(), &hexf(b)], &o, &format!("{}:{}:{}:{}:{}", tag, if nolimit { "nolimit" } else { "limit" }, tgt, src, class), true);
        }
    }
}

/// Tag `deep-stream`: streams whose items nest 127 / 128 / 129 (with unbounded_depth also 200 / 1000) deep — brackets, braces, alternating —, alone, between
/// two scalars, and two deep items in a row; with the limit in force and (feature unbounded_depth) after `disable_recursion_limit()` on the
/// Deserializer that `into_iter()` turns into the stream: the stream must yield exactly the values the grammar describes, deep ones included.
fn deep_streams(sink: &mut Sink, cfg: &str, thorough: bool) {
    let depths: &[usize] = if cfg!(feature = "ud") { &[127, 128, 129, 200, 1000] } else { &[127, 128, 129] };
    for &d in depths {
        for mix in 0..3usize {
            for shape in 0..3 {
                if !thorough && d == 1000 && (mix == 2 || shape == 1) { continue; }
                let item = crate::streamraw::nested(d, mix);
                let doc: Vec<u8> = match shape {
                    0 => item.clone(),
                    1 => [&b"1 "[..], &item, b"\n2"].concat(),
                    _ => [&item[..], if mix == 1 { b"" } else { b" " }, &crate::streamraw::nested(if d == 128 { 127 } else { d }, (mix + 1) % 3), b" null"].concat(),
                };
                emit_deep(sink, cfg, &doc, 5, false, "deep-stream");
                #[cfg(feature = "ud")]
                emit_deep(sink, cfg, &doc, 5, true, "deep-stream");
            }
        }
    }
}

pub fn run(sink: &mut Sink, thorough: bool, seed: u64) {
    let mut r = Rng::new(seed);
    let cfg = cfg_tag();
    for s in ["", " ", "1", "1 ", "1 2", "12 3", "1x", "1,2", "[1][2]", "[0] [1] [", "{\"k\": 3}1\"cool\"\"stuff\" 3{}  [0, 1, 2]", "true false", "truefalse", "nullnull",
              "null[]", "\"a\"\"b\"", "1\"a\"", "1.5e3 ", "-", "1e", "\"\\u12", "\"\\ud800", "\"\\ud800\\u", "[1,", "{\"a\"", "1]", "1}", "1:", "tru", "truex", "0 1 2 3 4 5 6", "\n1\n2\n",
              "1e999 2", "[1e999] 2", "\"\\ud800\" 1", "1/2", "1-2", "1+2", "1.2.3", "1e5e5", "[] x", "x"] {
        emit(sink, &cfg, s.as_bytes(), 5, "corpus");
    }
    // exhaustive short token sequences
    let toks = tokens();
    for len in 1..=(if thorough { 3 } else { 2 }) {
        let mut inputs: Vec<Vec<u8>> = vec![];
        exhaustive(&toks, len, 0, 1, |b| inputs.push(b.to_vec()));
        for b in inputs { emit(sink, &cfg, &b, len + 3, &format!("exh{}", len)); }
    }
    long_streams(sink, &cfg, &mut r, thorough);
    deep_streams(sink, &cfg, thorough);
    // concatenations of generated values with every separator choice, truncated and corrupted
    let n = if thorough { 6000 } else { 600 };
    for _ in 0..n {
        let k = 1 + r.below(4);
        let mut s: Vec<u8> = vec![];
        for i in 0..k {
            let mut v = vec![]; gen_doc_into(&mut r, 2, &mut v);
            if i > 0 || r.chance(1, 3) { match r.below(4) { 0 => {}, 1 => s.push(b' '), 2 => s.push(b'\n'), _ => s.extend_from_slice(b" \t") } }
            s.extend_from_slice(&v);
        }
        if r.chance(1, 3) { s.push(*r.pick(&[b' ', b'\n'])); }
        emit(sink, &cfg, &s, k + 3, "concat");
        if r.chance(1, 2) && !s.is_empty() { let cut = r.below(s.len()); emit(sink, &cfg, &s[..cut], k + 3, "truncated"); }
        if r.chance(1, 2) { let m = mutate(&s, &mut r); emit(sink, &cfg, &m, k + 3, "corrupted"); }
    }
}
