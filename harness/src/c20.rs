//! C20: arbitrary_precision keeps number literals verbatim (feature `ap`).
#![cfg(feature = "ap")]
use crate::common::*;
use crate::gen::*;
use crate::obs::*;
use serde_json::{Number, Value};

fn g<F: FnOnce() -> String>(f: F) -> String { std::panic::catch_unwind(std::panic::AssertUnwindSafe(f)).unwrap_or("PANIC".into()) }

/// as_str / Display / to_string of the Number and of the Value the literal parses to; nested and through the reader
fn emit_numtext(sink: &mut Sink, cfg: &str, lit: &str, tag: &str) {
    let l = lit.to_string();
    let o = g(move || {
        let n: Number = match l.parse() { Ok(n) => n, Err(_) => return "ERR".into() };
        let v: Value = match serde_json::from_str(&l) { Ok(v) => v, Err(_) => return "ERRV".into() };
        let nested = format!("[{}, {{\"k\":{}}}]", l, l);
        let nv: Value = serde_json::from_reader(Chunked::new(nested.as_bytes(), vec![3, 1])).unwrap_or(Value::Null);
        format!("{}|{}|{}|{}|{}|{}", hexf(n.as_str().as_bytes()), hexf(n.to_string().as_bytes()), hexf(serde_json::to_string(&n).unwrap().as_bytes()),
                hexf(v.to_string().as_bytes()), hexf(serde_json::to_string_pretty(&v).unwrap().as_bytes()), hexf(serde_json::to_string(&nv).unwrap().as_bytes()))
    });
    sink.case("numtext", &[cfg, &hexf(lit.as_bytes())], &o, tag, lit.len() > 1);
}

/// parse-then-serialise of a document of arrays of number literals changes nothing but whitespace
fn emit_reprint(sink: &mut Sink, cfg: &str, doc: &[u8], tag: &str) {
    let d = doc.to_vec();
    let o = g(move || match serde_json::from_slice::<Value>(&d) { Ok(v) => hexf(serde_json::to_vec(&v).unwrap().as_slice()), Err(e) => show_err(&e) });
    sink.case("reprint", &[cfg, &hexf(doc)], &o, tag, doc.len() > 1);
}

/// as_f64 of the literal `1` followed by `n` zeros with exponent `e-<m>` (described by its parameters: the text is too long for a case line)
fn emit_accbig(sink: &mut Sink, cfg: &str, n: usize, m: usize) {
    let lit = format!("1{}e-{}", "0".repeat(n), m);
    let o = g(move || match lit.parse::<Number>() { Err(_) => "ERR".into(), Ok(x) => x.as_f64().map(|f| format!("{:016x}", f.to_bits())).unwrap_or("N".into()) });
    sink.case("accbig", &[cfg, &n.to_string(), &m.to_string()], &o, &format!("accbig:{}", if o == "N" { "none" } else { "some" }), true);
}

pub fn replay(sink: &mut Sink, toks: &[&str]) {
    if toks.len() < 3 { return; }
    let cfg = cfg_tag();
    if toks[0] == "accbig" {
        if toks.len() >= 4 { if let (Ok(n), Ok(m)) = (toks[2].parse::<usize>(), toks[3].parse::<usize>()) { emit_accbig(sink, &cfg, n, m); } }
        return;
    }
    let b = unhex(toks[2]);
    match toks[0] { "numtext" => emit_numtext(sink, &cfg, std::str::from_utf8(&b).unwrap_or(""), "replay"), _ => emit_reprint(sink, &cfg, &b, "replay") }
}

pub fn run(sink: &mut Sink, thorough: bool, seed: u64) {
    let mut r = Rng::new(seed);
    let cfg = cfg_tag();
    let mut lits: Vec<String> = vec![];
    for s in ["-0", "0", "-0.0", "0.0", "1.0", "1.10", "1e0", "1E+007", "1e-0", "100e-2", "1.50e+007", "18446744073709551616", "-9223372036854775809",
              "123456789012345678901234567890.123456789012345678901234567890e-999999", "0.000000000000000000000000000000000000000000001", "1e999", "-1E-999", "0e0", "-0e-0", "9.999999999999999999999e99999"] { lits.push(s.to_string()); }
    for _ in 0..(if thorough { 20000 } else { 2000 }) { lits.push(gen_number_text(&mut r)); }
    // 100–1000 digit mantissas and exponents
    for _ in 0..(if thorough { 300 } else { 30 }) {
        let n = 100 + r.below(900);
        let mut s = String::new(); if r.chance(1, 2) { s.push('-'); }
        s.push(*r.pick(&['1', '7', '9'])); for _ in 1..n { s.push(*r.pick(&['0', '1', '5', '9'])); }
        if r.chance(1, 2) { s.push('.'); for _ in 0..1 + r.below(n) { s.push(*r.pick(&['0', '3', '9'])); } }
        if r.chance(1, 2) { s.push(*r.pick(&['e', 'E'])); if r.chance(1, 2) { s.push(*r.pick(&['+', '-'])); } for _ in 0..1 + r.below(300) { s.push(*r.pick(&['0', '1', '9'])); } }
        lits.push(s);
    }
    for l in &lits { emit_numtext(sink, &cfg, l, "lit"); }
    // as_f64 = str::parse::<f64> on texts beyond 65 536 bytes: std's exponent accumulator saturates (thorough tier only: the model needs
    // a minute for the 700 000-digit one; known finding C20-as-f64-exponent-saturation)
    if thorough { for (n, m) in [(70000usize, 70000usize), (100000, 100000), (700000, 700000)] { emit_accbig(sink, &cfg, n, m); } }
    // documents: arrays of literals with whitespace
    for _ in 0..(if thorough { 5000 } else { 500 }) {
        let k = 1 + r.below(5);
        let mut d: Vec<u8> = vec![b'['];
        for i in 0..k {
            if i > 0 { d.push(b','); }
            if r.chance(1, 3) { d.push(b' '); }
            if r.chance(1, 5) { d.push(b'['); d.extend_from_slice(r.pick(&lits).as_bytes()); d.push(b']'); } else { d.extend_from_slice(r.pick(&lits).as_bytes()); }
            if r.chance(1, 3) { d.push(b'\n'); }
        }
        d.push(b']');
        emit_reprint(sink, &cfg, &d, "doc");
    }
    // documents with objects and strings (c20_text_roundtrip): `canon` = distinct keys, ascending unless preserve_order, every string in
    // the serializer's spelling => the output is the input minus insignificant whitespace; the other classes break one proviso each
    for i in 0..(if thorough { 6000 } else { 900 }) {
        let class = ["canon", "canon", "canon", "unsorted", "dupkey", "respelled"][i % 6];
        let mut d: Vec<u8> = vec![];
        ws(&mut r, &mut d);
        gen_doc(&mut r, &lits, class, 3, &mut d);
        ws(&mut r, &mut d);
        emit_reprint(sink, &cfg, &d, &format!("text:{}", class));
    }
}

/// (spelling between the quotes, decoded bytes) — the serializer's own spellings, one with blanks inside the literal
const STRS: [(&str, &[u8]); 12] = [("", b""), ("a", b"a"), ("b\\n", b"b\n"), ("\\u001f", b"\x1f"), ("\u{e9}", "\u{e9}".as_bytes()), ("k  k", b"k  k"),
    ("\\\"", b"\""), ("\\\\", b"\\"), ("z\\t", b"z\t"), ("A", b"A"), ("\u{1f600}", "\u{1f600}".as_bytes()), (" ", b" ")];
/// other RFC 8259 spellings of a string (not what the serializer writes)
const RESPELLED: [&str; 5] = ["\\u0041", "\\/", "\\u00e9", "\\ud83d\\ude00", "\\u000A"];

fn ws(r: &mut Rng, d: &mut Vec<u8>) { for _ in 0..r.below(3) { if r.chance(1, 2) { d.push(*r.pick(&[b' ', b'\n', b'\t', b'\r'])); } } }

fn gen_str(r: &mut Rng, class: &str, d: &mut Vec<u8>) {
    d.push(b'"');
    if class == "respelled" && r.chance(1, 2) { d.extend_from_slice(r.pick(&RESPELLED).as_bytes()); } else { d.extend_from_slice(r.pick(&STRS).0.as_bytes()); }
    d.push(b'"');
}

fn gen_doc(r: &mut Rng, lits: &[String], class: &str, depth: usize, d: &mut Vec<u8>) {
    let k = if depth == 0 { r.below(4) } else { r.below(8) };
    match k {
        0 | 1 => d.extend_from_slice(r.pick(lits).as_bytes()),
        2 => gen_str(r, class, d),
        3 => d.extend_from_slice(*r.pick(&[&b"null"[..], &b"true"[..], &b"false"[..]])),
        4 | 5 => {
            d.push(b'[');
            let n = r.below(4);
            for i in 0..n { if i > 0 { d.push(b','); } ws(r, d); gen_doc(r, lits, class, depth - 1, d); ws(r, d); }
            if n == 0 { ws(r, d); }
            d.push(b']');
        }
        _ => {
            // keys: a random subset of STRS, ascending by decoded bytes (the order of BTreeMap<String, _>) unless the class says otherwise
            let mut ks: Vec<usize> = (0..STRS.len()).filter(|_| r.chance(1, 3)).collect();
            ks.sort_by(|a, b| STRS[*a].1.cmp(STRS[*b].1));
            if class == "unsorted" || cfg!(feature = "po") { for i in (1..ks.len()).rev() { let j = r.below(i + 1); ks.swap(i, j); } }
            if class == "dupkey" && !ks.is_empty() { let x = *r.pick(&ks); ks.push(x); }
            d.push(b'{');
            for (i, k) in ks.iter().enumerate() {
                if i > 0 { d.push(b','); }
                ws(r, d); d.push(b'"'); d.extend_from_slice(STRS[*k].0.as_bytes()); d.push(b'"'); ws(r, d); d.push(b':'); ws(r, d);
                gen_doc(r, lits, class, depth - 1, d); ws(r, d);
            }
            if ks.is_empty() { ws(r, d); }
            d.push(b'}');
        }
    }
}
