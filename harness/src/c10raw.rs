//! C10 under raw_value: content captured raw. Every proper prefix of a text a `RawValue` target accepts is accepted or fails
//! with an Eof error at its end — also when the cut falls strictly inside a multi-byte character of the captured text (byte
//! sources: the partial capture is then not UTF-8, and must not be reported as such).
//!
//! `pfxr <cfg> <tgt> <src> <hex doc> => o_0,…,o_n` — outcome of every prefix (`A`, `<category>:<line>:<col>`, `-` for a str prefix
//! that is not UTF-8); targets `raw` = `Box<RawValue>`, `rawvec` = `Vec<Box<RawValue>>`, `rawmap` = `BTreeMap<String, Box<RawValue>>`,
//! `rawfld` = `struct { id: Option<u32>, payload: Box<RawValue>, tail: Box<RawValue> }` (shape `s3` of op `rawfld`).
#![cfg(feature = "rv")]
use crate::common::*;
use crate::gen::*;
use crate::obs::*;
use serde::Deserialize;
use serde_json::value::RawValue;
use std::collections::BTreeMap;

#[derive(Deserialize)]
#[allow(dead_code)]
struct S3 { id: Option<u32>, payload: Box<RawValue>, tail: Box<RawValue> }

fn outcome(tgt: &str, src: &str, b: &[u8]) -> String {
    macro_rules! go { ($t:ty) => {{
        let r: Result<$t, serde_json::Error> = match src {
            "str" => serde_json::from_str(std::str::from_utf8(b).unwrap()),
            "slice" => serde_json::from_slice(b),
            _ => serde_json::from_reader(Chunked::new(b, vec![2, 5, 1])),
        };
        match r { Ok(_) => "A".to_string(), Err(e) => { let o = show_err(&e); let p: Vec<&str> = o.split(':').collect(); if p.len() == 5 { format!("{}:{}:{}", p[2], p[3], p[4]) } else { o } } }
    }}; }
    std::panic::catch_unwind(std::panic::AssertUnwindSafe(|| match tgt {
        "raw" => go!(Box<RawValue>), "rawvec" => go!(Vec<Box<RawValue>>), "rawmap" => go!(BTreeMap<String, Box<RawValue>>), "rawfld" => go!(S3),
        _ => "?".into() })).unwrap_or("PANIC".into())
}

pub fn emit(sink: &mut Sink, cfg: &str, tgt: &str, src: &str, doc: &[u8], tag: &str) {
    if src == "str" && std::str::from_utf8(doc).is_err() { return; }
    if outcome(tgt, src, doc) != "A" { return; }
    let mut obs = Vec::with_capacity(doc.len() + 1);
    let (mut worst, mut inside) = ("ok", false);
    for k in 0..doc.len() {
        let cut_in_char = std::str::from_utf8(&doc[..k]).map_or_else(|e| e.error_len().is_none(), |_| false);
        if src == "str" && std::str::from_utf8(&doc[..k]).is_err() { obs.push("-".to_string()); continue; }
        inside |= cut_in_char;
        let o = outcome(tgt, src, &doc[..k]);
        if o.starts_with("syntax") || o.starts_with("data") { worst = "non-eof"; }
        obs.push(o);
    }
    obs.push("A".into());
    sink.case("pfxr", &[cfg, tgt, src, &hexf(doc)], &obs.join(","), &format!("pfxr:{}:{}:{}:{}:{}", tag, tgt, src, if inside { "cut-inside-char" } else { "ascii" }, worst), doc.len() > 1);
}

/// values whose text holds multi-byte characters: in strings, in keys, nested, next to escapes
const MB: &[&str] = &["\"\u{e9}\"", "\"a\u{20ac}b\"", "\"\u{10348}\"", "[\"\u{e9}\", 1]", "{\"\u{e9}\":\"\u{20ac}\"}", "\"\\n\u{1f600}\\u00e9\"", "[[\"x\u{7ff}\"]]", "{\"k\":[\"\u{fffd}\",{\"\u{10ffff}\":null}]}",
                      "\"\u{e9}\u{e9}\u{e9}\"", "[1, \"\u{80}\"]", "\"\\\"\u{800}\\\\\"", "{\"a\":1, \"\u{20ac}\" : [true, \"\u{e9}\"] }"];
const WS: &[&str] = &["", "", " ", "\n", " \t", "\r\n"];

fn value(r: &mut Rng) -> Vec<u8> {
    if r.chance(1, 2) { r.pick(MB).as_bytes().to_vec() } else { let mut v = vec![]; gen_doc_into(r, 2, &mut v); v }
}

fn doc_for(tgt: &str, r: &mut Rng) -> Vec<u8> {
    let mut d: Vec<u8> = r.pick(WS).as_bytes().to_vec();
    match tgt {
        "raw" => d.extend(value(r)),
        "rawvec" => { d.push(b'['); for i in 0..r.below(4) { if i > 0 { d.push(b','); } d.extend_from_slice(r.pick(WS).as_bytes()); d.extend(value(r)); d.extend_from_slice(r.pick(WS).as_bytes()); } d.push(b']'); }
        "rawmap" => { d.push(b'{'); for i in 0..r.below(4) { if i > 0 { d.push(b','); } d.extend_from_slice(r.pick(WS).as_bytes());
                      d.extend_from_slice(format!("\"{}{}\"", r.pick(&["k", "\u{e9}", "\u{20ac}x", "\\u00e9"]), i).as_bytes()); d.extend_from_slice(r.pick(WS).as_bytes()); d.push(b':'); d.extend_from_slice(r.pick(WS).as_bytes()); d.extend(value(r)); d.extend_from_slice(r.pick(WS).as_bytes()); } d.push(b'}'); }
        _ => { d.extend_from_slice(b"{\"id\":7,"); d.extend_from_slice(r.pick(WS).as_bytes()); d.extend_from_slice(b"\"payload\":"); d.extend_from_slice(r.pick(WS).as_bytes()); d.extend(value(r)); d.extend_from_slice(r.pick(WS).as_bytes());
               d.extend_from_slice(",\"sk\u{e9}pped\":".as_bytes()); d.extend(value(r)); d.extend_from_slice(b",\"tail\":"); d.extend(value(r)); d.extend_from_slice(r.pick(WS).as_bytes()); d.push(b'}'); }
    }
    d.extend_from_slice(r.pick(WS).as_bytes());
    d
}

pub fn replay(sink: &mut Sink, toks: &[&str]) {
    if toks.len() >= 5 { emit(sink, &cfg_tag(), toks[2], toks[3], &unhex(toks[4]), "replay"); }
}

pub fn run(sink: &mut Sink, thorough: bool, seed: u64) {
    let mut r = Rng::new(seed ^ 0xc10);
    let cfg = cfg_tag();
    for s in MB { for src in ["str", "slice", "reader"] { emit(sink, &cfg, "raw", src, s.as_bytes(), "corpus"); } }
    for _ in 0..(if thorough { 2500 } else { 250 }) {
        for tgt in ["raw", "rawvec", "rawmap", "rawfld"] {
            let d = doc_for(tgt, &mut r);
            for src in ["str", "slice", "reader"] { emit(sink, &cfg, tgt, src, &d, "gen"); }
        }
    }
}
