//! Universal serializer-program replayer: a `Prog` is a tree of serde data-model calls; its
//! `Serialize` impl replays the tree against ANY `serde::Serializer`, exactly one serde call per node.
//! Also: the one-token wire codec (`enc_prog` / `dec_prog`) and adversarial generators.
#![allow(dead_code)]
use crate::common::{hex, unhex, Rng};
use serde::ser::{
    Serialize, SerializeMap, SerializeSeq, SerializeStruct, SerializeStructVariant, SerializeTuple,
    SerializeTupleStruct, SerializeTupleVariant, Serializer,
};

#[derive(Clone, Debug)]
pub enum IntV { I8(i8), I16(i16), I32(i32), I64(i64), I128(i128), U8(u8), U16(u16), U32(u32), U64(u64), U128(u128) }

#[derive(Clone, Debug)]
pub enum Prog {
    Bool(bool), Int(IntV), F32(f32), F64(f64), Char(char), Str(String), Bytes(Vec<u8>),
    None, Some(Box<Prog>), Unit, UnitStruct, UnitVariant(&'static str),
    NewtypeStruct(Box<Prog>), NewtypeVariant(&'static str, Box<Prog>),
    Seq(Option<usize>, Vec<Prog>), Tuple(Vec<Prog>), TupleStruct(Vec<Prog>), TupleVariant(&'static str, Vec<Prog>),
    Map(Option<usize>, Vec<(Prog, Prog)>), Struct(Vec<(&'static str, Prog)>), StructVariant(&'static str, Vec<(&'static str, Prog)>),
    CollectStr(String),
}

/// pool of variant / field names (looked up by content when decoding)
pub const NAMES: &[&'static str] = &["", "a", "b", "V", "key", "a\"b", "back\\slash", "é", "line\nbreak", "\u{1}", "x y", "longer_variant_name"];

/// `Display` that performs exactly one `write_str` (no padding, nothing else)
pub struct OneShot<'a>(pub &'a str);
impl<'a> std::fmt::Display for OneShot<'a> {
    fn fmt(&self, f: &mut std::fmt::Formatter<'_>) -> std::fmt::Result { f.write_str(self.0) }
}

impl Serialize for Prog {
    fn serialize<S: Serializer>(&self, s: S) -> Result<S::Ok, S::Error> {
        match self {
            Prog::Bool(b) => s.serialize_bool(*b),
            Prog::Int(i) => match *i {
                IntV::I8(x) => s.serialize_i8(x), IntV::I16(x) => s.serialize_i16(x), IntV::I32(x) => s.serialize_i32(x),
                IntV::I64(x) => s.serialize_i64(x), IntV::I128(x) => s.serialize_i128(x),
                IntV::U8(x) => s.serialize_u8(x), IntV::U16(x) => s.serialize_u16(x), IntV::U32(x) => s.serialize_u32(x),
                IntV::U64(x) => s.serialize_u64(x), IntV::U128(x) => s.serialize_u128(x),
            },
            Prog::F32(x) => s.serialize_f32(*x),
            Prog::F64(x) => s.serialize_f64(*x),
            Prog::Char(c) => s.serialize_char(*c),
            Prog::Str(t) => s.serialize_str(t),
            Prog::Bytes(b) => s.serialize_bytes(b),
            Prog::None => s.serialize_none(),
            Prog::Some(p) => s.serialize_some(&**p),
            Prog::Unit => s.serialize_unit(),
            Prog::UnitStruct => s.serialize_unit_struct("T"),
            Prog::UnitVariant(v) => s.serialize_unit_variant("E", 0, *v),
            Prog::NewtypeStruct(p) => s.serialize_newtype_struct("T", &**p),
            Prog::NewtypeVariant(v, p) => s.serialize_newtype_variant("E", 0, *v, &**p),
            Prog::Seq(h, xs) => {
                let mut q = s.serialize_seq(*h)?;
                for x in xs { q.serialize_element(x)?; }
                q.end()
            }
            Prog::Tuple(xs) => {
                let mut q = s.serialize_tuple(xs.len())?;
                for x in xs { q.serialize_element(x)?; }
                q.end()
            }
            Prog::TupleStruct(xs) => {
                let mut q = s.serialize_tuple_struct("T", xs.len())?;
                for x in xs { q.serialize_field(x)?; }
                q.end()
            }
            Prog::TupleVariant(v, xs) => {
                let mut q = s.serialize_tuple_variant("E", 0, *v, xs.len())?;
                for x in xs { q.serialize_field(x)?; }
                q.end()
            }
            Prog::Map(h, es) => {
                let mut q = s.serialize_map(*h)?;
                for (k, v) in es { q.serialize_key(k)?; q.serialize_value(v)?; }
                q.end()
            }
            Prog::Struct(fs) => {
                let mut q = s.serialize_struct("T", fs.len())?;
                for (n, v) in fs { q.serialize_field(*n, v)?; }
                q.end()
            }
            Prog::StructVariant(v, fs) => {
                let mut q = s.serialize_struct_variant("E", 0, *v, fs.len())?;
                for (n, x) in fs { q.serialize_field(*n, x)?; }
                q.end()
            }
            Prog::CollectStr(t) => s.collect_str(&OneShot(t)),
        }
    }
}

impl Prog {
    /// constructor name (used in histogram tags)
    pub fn ctor(&self) -> &'static str {
        match self {
            Prog::Bool(_) => "Bool", Prog::Int(_) => "Int", Prog::F32(_) => "F32", Prog::F64(_) => "F64", Prog::Char(_) => "Char",
            Prog::Str(_) => "Str", Prog::Bytes(_) => "Bytes", Prog::None => "None", Prog::Some(_) => "Some", Prog::Unit => "Unit",
            Prog::UnitStruct => "UnitStruct", Prog::UnitVariant(_) => "UnitVariant", Prog::NewtypeStruct(_) => "NewtypeStruct",
            Prog::NewtypeVariant(..) => "NewtypeVariant", Prog::Seq(..) => "Seq", Prog::Tuple(_) => "Tuple",
            Prog::TupleStruct(_) => "TupleStruct", Prog::TupleVariant(..) => "TupleVariant", Prog::Map(..) => "Map",
            Prog::Struct(_) => "Struct", Prog::StructVariant(..) => "StructVariant", Prog::CollectStr(_) => "CollectStr",
        }
    }
    /// direct sub-programs in replay order
    pub fn children(&self) -> Vec<&Prog> {
        match self {
            Prog::Some(p) | Prog::NewtypeStruct(p) | Prog::NewtypeVariant(_, p) => vec![&**p],
            Prog::Seq(_, xs) | Prog::Tuple(xs) | Prog::TupleStruct(xs) | Prog::TupleVariant(_, xs) => xs.iter().collect(),
            Prog::Map(_, es) => es.iter().flat_map(|(k, v)| [k, v]).collect(),
            Prog::Struct(fs) | Prog::StructVariant(_, fs) => fs.iter().map(|(_, v)| v).collect(),
            _ => vec![],
        }
    }
    /// number of nodes
    pub fn size(&self) -> usize { 1 + self.children().iter().map(|c| c.size()).sum::<usize>() }
}

// ------------------------------------------------------------------ wire codec

/// text serde_json prints for a float (the driver's oracle for shortest-digits); empty when not finite
fn f64_text(x: f64) -> String {
    if !x.is_finite() { return String::new(); }
    std::panic::catch_unwind(|| serde_json::to_string(&x).unwrap_or_else(|_| "ERR".into())).unwrap_or_else(|_| "PANIC".into())
}
fn f32_text(x: f32) -> String {
    if !x.is_finite() { return String::new(); }
    std::panic::catch_unwind(|| serde_json::to_string(&x).unwrap_or_else(|_| "ERR".into())).unwrap_or_else(|_| "PANIC".into())
}

fn enc_into(p: &Prog, o: &mut String) {
    fn hx(o: &mut String, b: &[u8]) { o.push_str(&hex(b)); o.push(';'); }
    match p {
        Prog::Bool(false) => o.push_str("b0"),
        Prog::Bool(true) => o.push_str("b1"),
        Prog::Int(i) => {
            let (w, d) = match *i {
                IntV::I8(x) => ('a', x.to_string()), IntV::I16(x) => ('b', x.to_string()), IntV::I32(x) => ('c', x.to_string()),
                IntV::I64(x) => ('d', x.to_string()), IntV::I128(x) => ('e', x.to_string()),
                IntV::U8(x) => ('A', x.to_string()), IntV::U16(x) => ('B', x.to_string()), IntV::U32(x) => ('C', x.to_string()),
                IntV::U64(x) => ('D', x.to_string()), IntV::U128(x) => ('E', x.to_string()),
            };
            o.push('i'); o.push(w); o.push_str(&d); o.push(';');
        }
        Prog::F32(x) => { o.push_str(&format!("g{:08x}:", x.to_bits())); hx(o, f32_text(*x).as_bytes()); }
        Prog::F64(x) => { o.push_str(&format!("d{:016x}:", x.to_bits())); hx(o, f64_text(*x).as_bytes()); }
        Prog::Char(c) => o.push_str(&format!("c{:x};", *c as u32)),
        Prog::Str(s) => { o.push('s'); hx(o, s.as_bytes()); }
        Prog::Bytes(b) => { o.push('y'); hx(o, b); }
        Prog::None => o.push('n'),
        Prog::Some(q) => { o.push('S'); enc_into(q, o); }
        Prog::Unit => o.push('u'),
        Prog::UnitStruct => o.push('U'),
        Prog::UnitVariant(v) => { o.push('v'); hx(o, v.as_bytes()); }
        Prog::NewtypeStruct(q) => { o.push('N'); enc_into(q, o); }
        Prog::NewtypeVariant(v, q) => { o.push('V'); hx(o, v.as_bytes()); enc_into(q, o); }
        Prog::Seq(h, xs) => {
            o.push('q');
            match h { None => o.push('-'), Some(n) => o.push_str(&n.to_string()) }
            o.push(';'); o.push_str(&xs.len().to_string()); o.push(';');
            for x in xs { enc_into(x, o); }
        }
        Prog::Tuple(xs) => { o.push_str(&format!("t{};", xs.len())); for x in xs { enc_into(x, o); } }
        Prog::TupleStruct(xs) => { o.push_str(&format!("T{};", xs.len())); for x in xs { enc_into(x, o); } }
        Prog::TupleVariant(v, xs) => {
            o.push('X'); hx(o, v.as_bytes()); o.push_str(&format!("{};", xs.len()));
            for x in xs { enc_into(x, o); }
        }
        Prog::Map(h, es) => {
            o.push('m');
            match h { None => o.push('-'), Some(n) => o.push_str(&n.to_string()) }
            o.push(';'); o.push_str(&es.len().to_string()); o.push(';');
            for (k, v) in es { enc_into(k, o); enc_into(v, o); }
        }
        Prog::Struct(fs) => {
            o.push_str(&format!("r{};", fs.len()));
            for (n, v) in fs { hx(o, n.as_bytes()); enc_into(v, o); }
        }
        Prog::StructVariant(v, fs) => {
            o.push('R'); hx(o, v.as_bytes()); o.push_str(&format!("{};", fs.len()));
            for (n, x) in fs { hx(o, n.as_bytes()); enc_into(x, o); }
        }
        Prog::CollectStr(s) => { o.push('l'); hx(o, s.as_bytes()); }
    }
}

/// one token, no spaces
pub fn enc_prog(p: &Prog) -> String { let mut o = String::new(); enc_into(p, &mut o); o }

/// look a variant / field name up in `NAMES` by content
pub fn name_of(b: &[u8]) -> &'static str {
    match NAMES.iter().find(|n| n.as_bytes() == b) { Some(n) => n, None => panic!("name not in NAMES: {:?}", b) }
}

struct Dec<'a> { b: &'a [u8], i: usize }
impl<'a> Dec<'a> {
    /// the text up to (excluding) the next `stop` byte; consumes the stop byte
    fn until(&mut self, stop: u8) -> &'a str {
        let st = self.i;
        while self.b[self.i] != stop { self.i += 1; }
        let r = std::str::from_utf8(&self.b[st..self.i]).unwrap();
        self.i += 1;
        r
    }
    fn bytes(&mut self) -> Vec<u8> { let t = self.until(b';'); if t.is_empty() { vec![] } else { unhex(t) } }
    fn string(&mut self) -> String { String::from_utf8(self.bytes()).expect("utf8") }
    fn name(&mut self) -> &'static str { name_of(&self.bytes()) }
    fn count(&mut self) -> usize { self.until(b';').parse().expect("count") }
    fn hint(&mut self) -> Option<usize> { let t = self.until(b';'); if t == "-" { None } else { Some(t.parse().expect("hint")) } }
    fn progs(&mut self, n: usize) -> Vec<Prog> { (0..n).map(|_| self.prog()).collect() }
    fn fields(&mut self, n: usize) -> Vec<(&'static str, Prog)> { (0..n).map(|_| { let k = self.name(); (k, self.prog()) }).collect() }
    fn prog(&mut self) -> Prog {
        let c = self.b[self.i]; self.i += 1;
        match c {
            b'b' => { let v = self.b[self.i] == b'1'; self.i += 1; Prog::Bool(v) }
            b'i' => {
                let w = self.b[self.i]; self.i += 1;
                let d = self.until(b';');
                Prog::Int(match w {
                    b'a' => IntV::I8(d.parse().unwrap()), b'b' => IntV::I16(d.parse().unwrap()), b'c' => IntV::I32(d.parse().unwrap()),
                    b'd' => IntV::I64(d.parse().unwrap()), b'e' => IntV::I128(d.parse().unwrap()),
                    b'A' => IntV::U8(d.parse().unwrap()), b'B' => IntV::U16(d.parse().unwrap()), b'C' => IntV::U32(d.parse().unwrap()),
                    b'D' => IntV::U64(d.parse().unwrap()), b'E' => IntV::U128(d.parse().unwrap()),
                    _ => panic!("bad int width {}", w as char),
                })
            }
            b'g' => { let h = self.until(b':'); let _ = self.until(b';'); Prog::F32(f32::from_bits(u32::from_str_radix(h, 16).unwrap())) }
            b'd' => { let h = self.until(b':'); let _ = self.until(b';'); Prog::F64(f64::from_bits(u64::from_str_radix(h, 16).unwrap())) }
            b'c' => { let h = self.until(b';'); Prog::Char(char::from_u32(u32::from_str_radix(h, 16).unwrap()).expect("char")) }
            b's' => Prog::Str(self.string()),
            b'y' => Prog::Bytes(self.bytes()),
            b'n' => Prog::None,
            b'S' => Prog::Some(Box::new(self.prog())),
            b'u' => Prog::Unit,
            b'U' => Prog::UnitStruct,
            b'v' => Prog::UnitVariant(self.name()),
            b'N' => Prog::NewtypeStruct(Box::new(self.prog())),
            b'V' => { let v = self.name(); Prog::NewtypeVariant(v, Box::new(self.prog())) }
            b'q' => { let h = self.hint(); let n = self.count(); Prog::Seq(h, self.progs(n)) }
            b't' => { let n = self.count(); Prog::Tuple(self.progs(n)) }
            b'T' => { let n = self.count(); Prog::TupleStruct(self.progs(n)) }
            b'X' => { let v = self.name(); let n = self.count(); Prog::TupleVariant(v, self.progs(n)) }
            b'm' => {
                let h = self.hint(); let n = self.count();
                Prog::Map(h, (0..n).map(|_| { let k = self.prog(); (k, self.prog()) }).collect())
            }
            b'r' => { let n = self.count(); Prog::Struct(self.fields(n)) }
            b'R' => { let v = self.name(); let n = self.count(); Prog::StructVariant(v, self.fields(n)) }
            b'l' => Prog::CollectStr(self.string()),
            _ => panic!("bad prog wire byte {:?} at {}", c as char, self.i - 1),
        }
    }
}

/// inverse of `enc_prog` (the hextext of floats is ignored)
pub fn dec_prog(s: &str) -> Prog {
    let mut d = Dec { b: s.as_bytes(), i: 0 };
    let p = d.prog();
    assert!(d.i == d.b.len(), "trailing bytes in prog token");
    p
}

/// decode one program from the head of `s`; returns it with the number of bytes consumed
pub fn dec_prog_prefix(s: &str) -> (Prog, usize) {
    let mut d = Dec { b: s.as_bytes(), i: 0 };
    let p = d.prog();
    (p, d.i)
}

// ------------------------------------------------------------------ generators

pub fn gen_name(r: &mut Rng) -> &'static str { *r.pick(NAMES) }

macro_rules! gen_int_w {
    ($r:expr, $t:ty, $c:path) => {{
        let k = $r.below(7);
        let raw = ($r.next() as u128) | (($r.next() as u128) << 64);
        let sh = $r.below(<$t>::BITS as usize) as u32;
        let x: $t = match k {
            0 => 0, 1 => 1, 2 => (0 as $t).wrapping_sub(1), 3 => <$t>::MIN, 4 => <$t>::MAX,
            _ => (raw as $t) >> sh,
        };
        $c(x)
    }};
}

/// 0, ±1, MIN / MAX of the width, random magnitudes; every width
pub fn gen_int(r: &mut Rng) -> IntV {
    match r.below(10) {
        0 => gen_int_w!(r, i8, IntV::I8), 1 => gen_int_w!(r, i16, IntV::I16), 2 => gen_int_w!(r, i32, IntV::I32),
        3 => gen_int_w!(r, i64, IntV::I64), 4 => gen_int_w!(r, i128, IntV::I128),
        5 => gen_int_w!(r, u8, IntV::U8), 6 => gen_int_w!(r, u16, IntV::U16), 7 => gen_int_w!(r, u32, IntV::U32),
        8 => gen_int_w!(r, u64, IntV::U64), _ => gen_int_w!(r, u128, IntV::U128),
    }
}

pub fn nonfinite_f64() -> [f64; 6] {
    [f64::NAN, f64::from_bits(0x7ff8_0000_0000_0001), f64::from_bits(0xfff8_0000_0000_0000), f64::from_bits(0x7ff0_0000_0000_0001),
     f64::INFINITY, f64::NEG_INFINITY]
}
pub fn nonfinite_f32() -> [f32; 6] {
    [f32::NAN, f32::from_bits(0x7fc0_0001), f32::from_bits(0xffc0_0000), f32::from_bits(0x7f80_0001), f32::INFINITY, f32::NEG_INFINITY]
}

pub fn gen_f64(r: &mut Rng) -> f64 {
    const SP: &[f64] = &[0.0, -0.0, f64::MIN_POSITIVE / 2.0, f64::MIN_POSITIVE, f64::MAX, f64::MIN, 1e300, 1e-300, 0.1, 1.0, 1e21, 1e-7,
                         123456789.125, -1.5, 1e15, 1e16, 1e20, 1e-5, 1e-6, 0.3, 2.5e-8, 9007199254740993.0, 4.35, 5e-324];
    match r.below(8) {
        0 => *r.pick(&nonfinite_f64()),
        1 => f64::from_bits(1 + r.below(3) as u64),
        2 | 3 | 4 => *r.pick(SP),
        5 | 6 => f64::from_bits(r.next()),
        _ => { let x = r.below(2_000_000) as f64 / [1.0, 10.0, 100.0, 1000.0][r.below(4)]; if r.chance(1, 3) { -x } else { x } }
    }
}
pub fn gen_f32(r: &mut Rng) -> f32 {
    const SP: &[f32] = &[0.0, -0.0, f32::MIN_POSITIVE / 2.0, f32::MIN_POSITIVE, f32::MAX, f32::MIN, 1e30, 1e-30, 0.1, 1.0, 1e21, 1e-7,
                         123456789.125, -1.5, 1e15, 1e16, 1e20, 1e-5, 1e-6, 0.3, 2.5e-8, 16777217.0, 4.35, 1e-45];
    match r.below(8) {
        0 => *r.pick(&nonfinite_f32()),
        1 => f32::from_bits(1 + r.below(3) as u32),
        2 | 3 | 4 => *r.pick(SP),
        5 | 6 => f32::from_bits(r.next() as u32),
        _ => { let x = r.below(2_000_000) as f32 / [1.0, 10.0, 100.0, 1000.0][r.below(4)]; if r.chance(1, 3) { -x } else { x } }
    }
}
pub fn gen_f64_finite(r: &mut Rng) -> f64 { loop { let x = gen_f64(r); if x.is_finite() { return x; } } }
pub fn gen_f32_finite(r: &mut Rng) -> f32 { loop { let x = gen_f32(r); if x.is_finite() { return x; } } }

pub const CHARS: &[char] = &['a', 'Z', '0', ' ', '"', '\\', '/', '\n', '\r', '\t', '\u{0}', '\u{1}', '\u{8}', '\u{b}', '\u{c}', '\u{1f}', '\u{7f}',
                             '\u{80}', 'é', '€', '\u{d7ff}', '\u{e000}', '\u{ffff}', '\u{10348}', '\u{10ffff}'];

pub fn gen_char(r: &mut Rng) -> char {
    if r.chance(3, 4) { return *r.pick(CHARS); }
    loop {
        let c = match r.below(3) { 0 => r.below(0x80), 1 => r.below(0x10000), _ => r.below(0x110000) } as u32;
        if let Some(c) = char::from_u32(c) { return c; }
    }
}

/// escape-relevant fragments
const ESCS: &[&str] = &["\"", "\\", "\u{0}", "\u{1}", "\u{8}", "\t", "\n", "\u{b}", "\u{c}", "\r", "\u{1f}"];
const ATOMS: &[&str] = &["\"", "\\", "\u{0}", "\u{1}", "\u{8}", "\t", "\n", "\u{b}", "\u{c}", "\r", "\u{1f}", "\u{7f}", "/", "é", "€",
                         "\u{10348}", "\u{ffff}", "\u{80}", " ", "a", "b", "xyz", "0", "\\u0041", "\\n", "</script>", "\u{2028}"];
const PLAIN: &[&str] = &["a", "hello", "key", "Hello, World", "0", "true", "null", "x y z", "AZaz09_-", "~!@#$%^&*()", "{}[]:,"];
pub const FIXED_STRS: &[&str] = &[
    "\"", "\\", "\"\"", "\\\\", "\\\"", "\"quoted\"", "back\\slash", "\u{0}", "\u{1}", "\u{8}", "\t", "\n", "\u{b}", "\u{c}", "\r", "\u{1f}",
    "\u{7f}", "/", "a/b", "é", "€", "\u{10348}", "\u{ffff}", "\u{80}", "\nabc", "abc\n", "a\nb", "\n\n", "\"\\\n\r\t\u{8}\u{c}", "\u{0}\u{1}\u{1f}",
    "\"a\"b\"", "\u{1f} \u{7f}", "é\"é", "\u{10348}\\\u{10348}", "tab\there", "\r\n", "a\u{0}", "\u{0}a", "€\u{80}\u{ffff}",
];

/// adversarial strings: empty, plain, every escape class, multi-byte, adjacent escapes, occasionally long
pub fn gen_str(r: &mut Rng) -> String {
    match r.below(16) {
        0 | 1 => String::new(),
        2 | 3 => r.pick(PLAIN).to_string(),
        4 | 5 | 6 => r.pick(FIXED_STRS).to_string(),
        7..=12 => { let n = 1 + r.below(8); (0..n).map(|_| *r.pick(ATOMS)).collect() }
        13 | 14 => {
            // runs of escapes adjacent to each other, at the start and / or the end
            let mut s = String::new();
            let lead = r.below(4); let mid = r.below(3); let tail = r.below(4);
            for _ in 0..lead { s.push_str(*r.pick(ESCS)); }
            if r.chance(2, 3) { s.push_str(*r.pick(PLAIN)); }
            for _ in 0..mid { s.push_str(*r.pick(ESCS)); }
            if r.chance(1, 3) { s.push_str(*r.pick(&["é", "€", "\u{10348}", "\u{7f}", "/"])); }
            for _ in 0..tail { s.push_str(*r.pick(ESCS)); }
            s
        }
        _ => {
            if !r.chance(1, 20) { let n = r.below(5); return (0..n).map(|_| gen_char(r)).collect(); }
            // long: 200–2000 chars, mostly plain runs (one big unescaped chunk) mixed with the classes above
            let n = 200 + r.below(1801);
            let dense = r.chance(1, 2);
            let mut s = String::new();
            let mut k = 0;
            while k < n {
                if r.chance(if dense { 3 } else { 1 }, 10) { let a = *r.pick(ATOMS); k += a.chars().count(); s.push_str(a); }
                else { s.push((b'a' + r.below(26) as u8) as char); k += 1; }
            }
            s
        }
    }
}

pub fn gen_bytes(r: &mut Rng) -> Vec<u8> {
    match r.below(6) {
        0 | 1 => vec![],
        2 => vec![0, 255, 7],
        3 => vec![*r.pick(&[0u8, 1, 9, 10, 99, 100, 127, 128, 255])],
        4 => { let n = r.below(6); (0..n).map(|_| r.next() as u8).collect() }
        _ => { let n = 10 + r.below(12); (0..n).map(|_| r.next() as u8).collect() }
    }
}

/// container sizes: empty and tiny ones frequent, occasionally 10+
pub fn gen_size(r: &mut Rng) -> usize {
    if r.chance(1, 25) { 10 + r.below(6) } else { *r.pick(&[0usize, 0, 1, 1, 2, 3]) }
}
/// None or Some(exact length), equally likely
fn gen_hint(r: &mut Rng, n: usize) -> Option<usize> { if r.chance(1, 2) { None } else { Some(n) } }

/// leaf constructors only
pub fn gen_scalar(r: &mut Rng) -> Prog {
    match r.below(17) {
        0 => Prog::Bool(r.chance(1, 2)),
        1 | 2 => Prog::Int(gen_int(r)),
        3 => Prog::F32(gen_f32(r)),
        4 | 5 => Prog::F64(gen_f64(r)),
        6 => Prog::Char(gen_char(r)),
        7 | 8 | 9 => Prog::Str(gen_str(r)),
        10 => Prog::Bytes(gen_bytes(r)),
        11 => Prog::None,
        12 => Prog::Unit,
        13 => Prog::UnitStruct,
        14 => Prog::UnitVariant(gen_name(r)),
        _ => Prog::CollectStr(gen_str(r)),
    }
}

/// every constructor; at depth 0 only leaves; hints are None or exact
pub fn gen_prog(r: &mut Rng, depth: usize) -> Prog {
    if depth == 0 || r.chance(3, 10) { return gen_scalar(r); }
    let d = depth - 1;
    match r.below(16) {
        0 => Prog::Some(Box::new(gen_prog(r, d))),
        1 => Prog::NewtypeStruct(Box::new(gen_prog(r, d))),
        2 => Prog::NewtypeVariant(gen_name(r), Box::new(gen_prog(r, d))),
        3 | 4 | 5 => { let n = gen_size(r); let h = gen_hint(r, n); Prog::Seq(h, (0..n).map(|_| gen_prog(r, d)).collect()) }
        6 => { let n = gen_size(r); Prog::Tuple((0..n).map(|_| gen_prog(r, d)).collect()) }
        7 => { let n = gen_size(r); Prog::TupleStruct((0..n).map(|_| gen_prog(r, d)).collect()) }
        8 => { let n = gen_size(r); Prog::TupleVariant(gen_name(r), (0..n).map(|_| gen_prog(r, d)).collect()) }
        9 | 10 | 11 => {
            let n = gen_size(r); let h = gen_hint(r, n);
            Prog::Map(h, (0..n).map(|_| { let k = gen_key(r, d); (k, gen_prog(r, d)) }).collect())
        }
        12 | 13 => { let n = gen_size(r); Prog::Struct((0..n).map(|_| (gen_name(r), gen_prog(r, d))).collect()) }
        _ => { let n = gen_size(r); Prog::StructVariant(gen_name(r), (0..n).map(|_| (gen_name(r), gen_prog(r, d))).collect()) }
    }
}

/// a key serde_json accepts: every string-like, bool, every integer width, finite floats, Some / newtype-struct chains of those
pub fn gen_valid_key(r: &mut Rng, depth: usize) -> Prog {
    let k = if depth == 0 { r.below(12) } else { r.below(16) };
    match k {
        0 | 1 | 2 => Prog::Str(gen_str(r)),
        3 => Prog::Char(gen_char(r)),
        4 => Prog::UnitVariant(gen_name(r)),
        5 => Prog::CollectStr(gen_str(r)),
        6 => Prog::Bool(r.chance(1, 2)),
        7 | 8 => Prog::Int(gen_int(r)),
        9 => Prog::Int(match r.below(4) { 0 => IntV::I128(i128::MIN), 1 => IntV::I128(i128::MAX), 2 => IntV::U128(u128::MAX), _ => IntV::U64(u64::MAX) }),
        10 => Prog::F32(gen_f32_finite(r)),
        11 => Prog::F64(gen_f64_finite(r)),
        12 => Prog::Some(Box::new(gen_valid_key(r, depth - 1))),
        13 => Prog::NewtypeStruct(Box::new(gen_valid_key(r, depth - 1))),
        _ => Prog::Some(Box::new(Prog::NewtypeStruct(Box::new(Prog::Some(Box::new(gen_valid_key(r, depth - 1))))))),
    }
}

/// a key serde_json rejects
pub fn gen_invalid_key(r: &mut Rng, depth: usize) -> Prog {
    let d = depth.saturating_sub(1);
    let sz = |r: &mut Rng| if depth == 0 { 0 } else { gen_size(r).min(3) };
    match r.below(17) {
        0 => { let n = sz(r); let h = gen_hint(r, n); Prog::Seq(h, (0..n).map(|_| gen_prog(r, d)).collect()) }
        1 => { let n = sz(r); let h = gen_hint(r, n); Prog::Map(h, (0..n).map(|_| { let k = gen_valid_key(r, d); (k, gen_prog(r, d)) }).collect()) }
        2 => { let n = sz(r); Prog::Tuple((0..n).map(|_| gen_prog(r, d)).collect()) }
        3 => Prog::Unit,
        4 => Prog::UnitStruct,
        5 => Prog::None,
        6 => Prog::Bytes(gen_bytes(r)),
        7 => Prog::NewtypeVariant(gen_name(r), Box::new(if r.chance(1, 2) { Prog::Str(gen_str(r)) } else { gen_prog(r, d) })),
        8 => { let n = sz(r); Prog::Struct((0..n).map(|_| (gen_name(r), gen_prog(r, d))).collect()) }
        9 => { let n = sz(r); Prog::TupleVariant(gen_name(r), (0..n).map(|_| gen_prog(r, d)).collect()) }
        10 => { let n = sz(r); Prog::StructVariant(gen_name(r), (0..n).map(|_| (gen_name(r), gen_prog(r, d))).collect()) }
        11 => Prog::F32(*r.pick(&nonfinite_f32())),
        12 => Prog::F64(*r.pick(&nonfinite_f64())),
        13 => Prog::Some(Box::new(Prog::None)),
        14 => Prog::NewtypeStruct(Box::new(Prog::Unit)),
        15 => { let n = sz(r); Prog::TupleStruct((0..n).map(|_| gen_prog(r, d)).collect()) }
        _ => Prog::Some(Box::new(Prog::NewtypeStruct(Box::new(if r.chance(1, 2) { Prog::F64(f64::NAN) } else { Prog::Seq(None, vec![]) })))),
    }
}

/// map keys: mostly valid keys of every kind, ~1/10 invalid
pub fn gen_key(r: &mut Rng, depth: usize) -> Prog {
    if r.chance(1, 10) { gen_invalid_key(r, depth) } else { gen_valid_key(r, depth) }
}

fn count_hinted(p: &Prog) -> usize {
    (match p { Prog::Seq(..) | Prog::Map(..) => 1, _ => 0 }) + p.children().iter().map(|c| count_hinted(c)).sum::<usize>()
}
fn wrong_hint(r: &mut Rng, n: usize) -> Option<usize> {
    loop {
        let h = match r.below(6) { 0 => 0, 1 => n + 1, 2 => 5, 3 => n.saturating_sub(1), 4 => 1, _ => 1000 };
        if h != n { return Some(h); }
    }
}
/// falsify the `target`-th hinted node (pre-order) and every other one with probability 1/4
fn falsify(p: &mut Prog, r: &mut Rng, idx: &mut usize, target: usize) {
    match p {
        Prog::Seq(h, xs) => {
            if *idx == target || r.chance(1, 4) { *h = wrong_hint(r, xs.len()); }
            *idx += 1;
            for x in xs { falsify(x, r, idx, target); }
        }
        Prog::Map(h, es) => {
            if *idx == target || r.chance(1, 4) { *h = wrong_hint(r, es.len()); }
            *idx += 1;
            for (k, v) in es { falsify(k, r, idx, target); falsify(v, r, idx, target); }
        }
        Prog::Some(q) | Prog::NewtypeStruct(q) | Prog::NewtypeVariant(_, q) => falsify(q, r, idx, target),
        Prog::Tuple(xs) | Prog::TupleStruct(xs) | Prog::TupleVariant(_, xs) => for x in xs { falsify(x, r, idx, target); },
        Prog::Struct(fs) | Prog::StructVariant(_, fs) => for (_, x) in fs { falsify(x, r, idx, target); },
        _ => {}
    }
}

/// a `gen_prog` program in which the length hint of one or more Seq / Map nodes is wrong
/// (Some(0) on a non-empty one, Some(len+1), Some(5) on an empty one, …)
pub fn gen_prog_badhint(r: &mut Rng, depth: usize) -> Prog {
    let depth = depth.max(1);
    let mut p = gen_prog(r, depth);
    let mut tries = 0;
    while count_hinted(&p) == 0 || (tries < 4 && p.size() < 3) {
        tries += 1;
        p = if tries < 8 { gen_prog(r, depth) }
            else if r.chance(1, 2) { Prog::Seq(None, vec![p]) } else { Prog::Map(None, vec![(Prog::Str("k".into()), p)]) };
    }
    let n = count_hinted(&p);
    let target = r.below(n);
    let mut idx = 0;
    falsify(&mut p, r, &mut idx, target);
    p
}
