//! Streams and raw values, second round (docs/STREAMRAW-NOTES.md): the ops behind the theorems
//! `c19_verbatim`, `c19_nested_*`, `c09_stream_offsets`, `c09_raw_sources`, `c14_stream_depth_restored`,
//! `c10_stream_prefix`.
//!
//! * `rawser <fmt> <rprog> => OK:buf,buf,… | ERR:class`  (rv) — a serializer program with `RawValue`s at
//!   arbitrary positions through a recording writer, compact (`c`) or pretty (`p<hexindent>`).
//! * `rawnest <cfg> <shape> <hex doc> => str|slice|reader`  (rv) — `Vec<Box<RawValue>>` (`arr`) or the
//!   entries of a map of `Box<RawValue>` in source order (`obj`) from the three sources.
//! * `stream3 <cfg> <tgt> <calls> <hex> => str|slice|reader` — whole `next()`/`byte_offset()` histories from
//!   the three sources side by side (C09).
//! * `sdepth <cfg> <src> <calls> <d1> <k1> <d2> <k2> => history` — a stream of two items nested `d1` / `d2`
//!   deep (bracket mix `k`), histories as in `stream` (C14: the depth budget is restored between items).
//! * `spfx <cfg> <tgt> <src> <calls> <hex> => h_0/h_1/…/h_n` — the stream history over every prefix (C10).
#![allow(dead_code)]
use crate::common::*;
use crate::gen::*;
use crate::obs::*;

fn g<F: FnOnce() -> String>(f: F) -> String { std::panic::catch_unwind(std::panic::AssertUnwindSafe(f)).unwrap_or("PANIC".into()) }

// ------------------------------------------------------------------------------------------------ C19: rawser

#[cfg(feature = "rv")]
pub mod raw {
    use super::*;
    use crate::prog::*;
    use serde::ser::{Serialize, SerializeMap, SerializeSeq, SerializeStruct, SerializeStructVariant, SerializeTuple,
        SerializeTupleStruct, SerializeTupleVariant, Serializer};
    use serde_json::value::RawValue;

    /// serializer programs with `RawValue`s inside (`lean/SJ/Model/SerRaw.lean` `RVal`)
    pub enum RProg {
        Raw(Box<RawValue>), Leaf(Prog), Some(Box<RProg>), Newtype(Box<RProg>), NewtypeVariant(&'static str, Box<RProg>),
        Seq(Option<usize>, Vec<RProg>), Tuple(Vec<RProg>), TupleStruct(Vec<RProg>), TupleVariant(&'static str, Vec<RProg>),
        Map(Option<usize>, Vec<(RProg, RProg)>), Struct(Vec<(&'static str, RProg)>), StructVariant(&'static str, Vec<(&'static str, RProg)>),
    }

    impl Serialize for RProg {
        fn serialize<S: Serializer>(&self, s: S) -> Result<S::Ok, S::Error> {
            match self {
                RProg::Raw(r) => r.serialize(s),
                RProg::Leaf(p) => p.serialize(s),
                RProg::Some(p) => s.serialize_some(&**p),
                RProg::Newtype(p) => s.serialize_newtype_struct("T", &**p),
                RProg::NewtypeVariant(v, p) => s.serialize_newtype_variant("E", 0, *v, &**p),
                RProg::Seq(h, xs) => { let mut q = s.serialize_seq(*h)?; for x in xs { q.serialize_element(x)?; } q.end() }
                RProg::Tuple(xs) => { let mut q = s.serialize_tuple(xs.len())?; for x in xs { q.serialize_element(x)?; } q.end() }
                RProg::TupleStruct(xs) => { let mut q = s.serialize_tuple_struct("T", xs.len())?; for x in xs { q.serialize_field(x)?; } q.end() }
                RProg::TupleVariant(v, xs) => { let mut q = s.serialize_tuple_variant("E", 0, *v, xs.len())?; for x in xs { q.serialize_field(x)?; } q.end() }
                RProg::Map(h, es) => { let mut q = s.serialize_map(*h)?; for (k, v) in es { q.serialize_key(k)?; q.serialize_value(v)?; } q.end() }
                RProg::Struct(fs) => { let mut q = s.serialize_struct("T", fs.len())?; for (n, v) in fs { q.serialize_field(*n, v)?; } q.end() }
                RProg::StructVariant(v, fs) => { let mut q = s.serialize_struct_variant("E", 0, *v, fs.len())?; for (n, x) in fs { q.serialize_field(*n, x)?; } q.end() }
            }
        }
    }

    fn hx(o: &mut String, b: &[u8]) { o.push_str(&hex(b)); o.push(';'); }
    fn hint(o: &mut String, h: &Option<usize>) { match h { None => o.push('-'), Some(n) => o.push_str(&n.to_string()) } o.push(';'); }
    pub fn enc_rprog(p: &RProg, o: &mut String) {
        match p {
            RProg::Raw(r) => { o.push('W'); hx(o, r.get().as_bytes()); }
            RProg::Leaf(q) => { o.push('L'); o.push_str(&enc_prog(q)); }
            RProg::Some(q) => { o.push('S'); enc_rprog(q, o); }
            RProg::Newtype(q) => { o.push('N'); enc_rprog(q, o); }
            RProg::NewtypeVariant(v, q) => { o.push('V'); hx(o, v.as_bytes()); enc_rprog(q, o); }
            RProg::Seq(h, xs) => { o.push('q'); hint(o, h); o.push_str(&format!("{};", xs.len())); for x in xs { enc_rprog(x, o); } }
            RProg::Tuple(xs) => { o.push_str(&format!("t{};", xs.len())); for x in xs { enc_rprog(x, o); } }
            RProg::TupleStruct(xs) => { o.push_str(&format!("T{};", xs.len())); for x in xs { enc_rprog(x, o); } }
            RProg::TupleVariant(v, xs) => { o.push('X'); hx(o, v.as_bytes()); o.push_str(&format!("{};", xs.len())); for x in xs { enc_rprog(x, o); } }
            RProg::Map(h, es) => { o.push('m'); hint(o, h); o.push_str(&format!("{};", es.len())); for (k, v) in es { enc_rprog(k, o); enc_rprog(v, o); } }
            RProg::Struct(fs) => { o.push_str(&format!("r{};", fs.len())); for (n, v) in fs { hx(o, n.as_bytes()); enc_rprog(v, o); } }
            RProg::StructVariant(v, fs) => { o.push('R'); hx(o, v.as_bytes()); o.push_str(&format!("{};", fs.len())); for (n, x) in fs { hx(o, n.as_bytes()); enc_rprog(x, o); } }
        }
    }

    struct Dec<'a> { b: &'a [u8], i: usize }
    impl<'a> Dec<'a> {
        fn until(&mut self, stop: u8) -> &'a str { let st = self.i; while self.b[self.i] != stop { self.i += 1; } let r = std::str::from_utf8(&self.b[st..self.i]).unwrap(); self.i += 1; r }
        fn bytes(&mut self) -> Vec<u8> { let t = self.until(b';'); if t.is_empty() { vec![] } else { unhex(t) } }
        fn name(&mut self) -> &'static str { name_of(&self.bytes()) }
        fn count(&mut self) -> usize { self.until(b';').parse().expect("count") }
        fn hint(&mut self) -> Option<usize> { let t = self.until(b';'); if t == "-" { None } else { Some(t.parse().expect("hint")) } }
        fn list(&mut self, n: usize) -> Vec<RProg> { (0..n).map(|_| self.rprog()).collect() }
        fn fields(&mut self, n: usize) -> Vec<(&'static str, RProg)> { (0..n).map(|_| { let k = self.name(); (k, self.rprog()) }).collect() }
        fn leaf(&mut self) -> Prog {
            let rest = std::str::from_utf8(&self.b[self.i..]).unwrap();
            let p = dec_prog_prefix(rest);
            self.i += p.1;
            p.0
        }
        fn rprog(&mut self) -> RProg {
            let c = self.b[self.i]; self.i += 1;
            match c {
                b'W' => { let t = String::from_utf8(self.bytes()).unwrap(); RProg::Raw(RawValue::from_string(t).expect("raw text")) }
                b'L' => RProg::Leaf(self.leaf()),
                b'S' => RProg::Some(Box::new(self.rprog())),
                b'N' => RProg::Newtype(Box::new(self.rprog())),
                b'V' => { let v = self.name(); RProg::NewtypeVariant(v, Box::new(self.rprog())) }
                b'q' => { let h = self.hint(); let n = self.count(); RProg::Seq(h, self.list(n)) }
                b't' => { let n = self.count(); RProg::Tuple(self.list(n)) }
                b'T' => { let n = self.count(); RProg::TupleStruct(self.list(n)) }
                b'X' => { let v = self.name(); let n = self.count(); RProg::TupleVariant(v, self.list(n)) }
                b'm' => { let h = self.hint(); let n = self.count(); RProg::Map(h, (0..n).map(|_| { let k = self.rprog(); (k, self.rprog()) }).collect()) }
                b'r' => { let n = self.count(); RProg::Struct(self.fields(n)) }
                b'R' => { let v = self.name(); let n = self.count(); RProg::StructVariant(v, self.fields(n)) }
                _ => panic!("bad rprog wire byte {:?}", c as char),
            }
        }
    }
    pub fn dec_rprog(s: &str) -> RProg { let mut d = Dec { b: s.as_bytes(), i: 0 }; d.rprog() }

    fn raw_text(r: &mut Rng) -> Box<RawValue> {
        let mut v = vec![];
        match r.below(10) {
            0 => v.extend_from_slice(b"null"), 1 => v.extend_from_slice(b"{ }"), 2 => v.extend_from_slice(b"[1 ,\n2]"),
            3 => v.extend_from_slice(b"\"\\u00e9\\n\""), 4 => v.extend_from_slice(b"-0.0e+00"), 5 => v.extend_from_slice(b"1e999"),
            6 => v.extend_from_slice(b"\"\\ud800\""),
            _ => gen_doc_into(r, 2, &mut v),
        }
        RawValue::from_string(String::from_utf8(v).unwrap()).expect("generated raw text is JSON")
    }
    fn size(r: &mut Rng) -> usize { match r.below(6) { 0 => 0, 1 | 2 => 1, 3 => 2, 4 => 3, _ => 4 } }
    fn ghint(r: &mut Rng, n: usize) -> Option<usize> { if r.chance(1, 2) { None } else { Some(n) } }
    fn gen_rkey(r: &mut Rng, d: usize) -> RProg {
        match r.below(24) {
            0 => RProg::Raw(raw_text(r)),                                   // KeyMustBeAString
            1 => RProg::Some(Box::new(RProg::Raw(raw_text(r)))),
            2 => RProg::Newtype(Box::new(RProg::Leaf(gen_valid_key(r, d)))),
            3 => RProg::Some(Box::new(RProg::Leaf(gen_key(r, d)))),
            4 => RProg::Seq(None, vec![]),
            _ => RProg::Leaf(gen_key(r, d)),
        }
    }
    pub fn gen_rprog(r: &mut Rng, depth: usize) -> RProg {
        if depth == 0 || r.chance(1, 4) { return if r.chance(2, 3) { RProg::Raw(raw_text(r)) } else { RProg::Leaf(gen_prog(r, 1)) }; }
        let d = depth - 1;
        match r.below(14) {
            0 => RProg::Some(Box::new(gen_rprog(r, d))),
            1 => RProg::Newtype(Box::new(gen_rprog(r, d))),
            2 => RProg::NewtypeVariant(gen_name(r), Box::new(gen_rprog(r, d))),
            3 | 4 | 5 => { let n = size(r); let h = ghint(r, n); RProg::Seq(h, (0..n).map(|_| gen_rprog(r, d)).collect()) }
            6 => { let n = size(r); RProg::Tuple((0..n).map(|_| gen_rprog(r, d)).collect()) }
            7 => { let n = size(r); RProg::TupleStruct((0..n).map(|_| gen_rprog(r, d)).collect()) }
            8 => { let n = size(r); RProg::TupleVariant(gen_name(r), (0..n).map(|_| gen_rprog(r, d)).collect()) }
            9 | 10 => { let n = size(r); let h = ghint(r, n); RProg::Map(h, (0..n).map(|_| { let k = gen_rkey(r, d); (k, gen_rprog(r, d)) }).collect()) }
            11 | 12 => { let n = size(r); RProg::Struct((0..n).map(|_| (gen_name(r), gen_rprog(r, d))).collect()) }
            _ => { let n = size(r); RProg::StructVariant(gen_name(r), (0..n).map(|_| (gen_name(r), gen_rprog(r, d))).collect()) }
        }
    }
    fn has_raw(p: &RProg) -> bool {
        match p {
            RProg::Raw(_) => true, RProg::Leaf(_) => false,
            RProg::Some(q) | RProg::Newtype(q) | RProg::NewtypeVariant(_, q) => has_raw(q),
            RProg::Seq(_, xs) | RProg::Tuple(xs) | RProg::TupleStruct(xs) | RProg::TupleVariant(_, xs) => xs.iter().any(has_raw),
            RProg::Map(_, es) => es.iter().any(|(k, v)| has_raw(k) || has_raw(v)),
            RProg::Struct(fs) | RProg::StructVariant(_, fs) => fs.iter().any(|(_, v)| has_raw(v)),
        }
    }

    struct Rec<'a>(&'a mut Vec<Vec<u8>>);
    impl<'a> std::io::Write for Rec<'a> {
        fn write(&mut self, buf: &[u8]) -> std::io::Result<usize> { self.0.push(buf.to_vec()); Ok(buf.len()) }
        fn write_all(&mut self, buf: &[u8]) -> std::io::Result<()> { self.0.push(buf.to_vec()); Ok(()) }
        fn flush(&mut self) -> std::io::Result<()> { Ok(()) }
    }
    fn class(e: &serde_json::Error) -> String {
        let m = e.to_string();
        if m.starts_with("key must be a string") { "KeyMustBeAString".into() }
        else if m.starts_with("float key must be finite") { "FloatKeyMustBeFinite".into() }
        else { format!("Other:{}", m.replace(' ', "_")) }
    }
    fn obs(fmt: Option<&[u8]>, p: &RProg) -> String {
        g(|| {
            let mut bufs: Vec<Vec<u8>> = Vec::new();
            let r = match fmt {
                None => { let mut s = serde_json::Serializer::new(Rec(&mut bufs)); p.serialize(&mut s) }
                Some(ind) => { let mut s = serde_json::Serializer::with_formatter(Rec(&mut bufs), serde_json::ser::PrettyFormatter::with_indent(ind)); p.serialize(&mut s) }
            };
            // the flat bytes through the public entry points must be the concatenation of the buffers
            let flat: Vec<u8> = bufs.concat();
            let direct = match fmt { None => serde_json::to_vec(p).ok(), Some(b"  ") => serde_json::to_vec_pretty(p).ok(), _ => None };
            if let (Ok(()), Some(d)) = (&r, &direct) { if *d != flat { return format!("DIFF:{}", hexf(d)); } }
            match r {
                Ok(()) => if bufs.is_empty() { "OK:".to_string() } else { format!("OK:{}", bufs.iter().map(|b| hexf(b)).collect::<Vec<_>>().join(",")) },
                Err(e) => format!("ERR:{}", class(&e)),
            }
        })
    }
    fn fmt_tok(fmt: Option<&[u8]>) -> String { match fmt { None => "c".into(), Some(i) => format!("p{}", hexf(i)) } }

    pub fn emit_ser(sink: &mut Sink, p: &RProg, tag: &str) {
        let mut e = String::new(); enc_rprog(p, &mut e);
        for fmt in [None, Some(&b"  "[..]), Some(&b"\t"[..]), Some(&b""[..])] {
            let o = obs(fmt, p);
            let class = if o.starts_with("OK") { "ok" } else if o.starts_with("ERR") { "err" } else { "other" };
            sink.case("rawser", &[&fmt_tok(fmt), &e], &o, &format!("rawser:{}:{}:{}", tag, if fmt.is_none() { "compact" } else { "pretty" }, class), has_raw(p));
        }
    }

    // -------------------------------------------------------------------------------------------- C19: rawnest

    struct Pairs(Vec<(String, Box<RawValue>)>);
    impl<'de> serde::Deserialize<'de> for Pairs {
        fn deserialize<D: serde::Deserializer<'de>>(d: D) -> Result<Pairs, D::Error> {
            struct V;
            impl<'de> serde::de::Visitor<'de> for V {
                type Value = Pairs;
                fn expecting(&self, f: &mut std::fmt::Formatter) -> std::fmt::Result { f.write_str("a map") }
                fn visit_map<A: serde::de::MapAccess<'de>>(self, mut m: A) -> Result<Pairs, A::Error> {
                    let mut out = vec![];
                    while let Some(k) = m.next_key::<String>()? { let v = m.next_value::<Box<RawValue>>()?; out.push((k, v)); }
                    Ok(Pairs(out))
                }
            }
            d.deserialize_map(V)
        }
    }
    fn show_vec(r: serde_json::Result<Vec<Box<RawValue>>>) -> String {
        match r { Ok(v) => format!("OK:Q{};{}", v.len(), v.iter().map(|x| format!("s{};", hex(x.get().as_bytes()))).collect::<String>()), Err(e) => show_err(&e) }
    }
    fn show_pairs(r: serde_json::Result<Pairs>) -> String {
        match r { Ok(Pairs(v)) => format!("OK:M{};{}", v.len(), v.iter().map(|(k, x)| format!("s{};s{};", hex(k.as_bytes()), hex(x.get().as_bytes()))).collect::<String>()), Err(e) => show_err(&e) }
    }
    pub fn nest_obs(shape: &str, b: &[u8], sizes: Vec<usize>) -> String {
        let st = std::str::from_utf8(b).ok();
        let mut outs = vec![];
        if shape == "arr" {
            outs.push(match st { Some(s) => g(|| {
                let boxed = show_vec(serde_json::from_str::<Vec<Box<RawValue>>>(s));
                // the borrowed captures must be the same texts, as subslices of the input
                let borrowed = match serde_json::from_str::<Vec<&RawValue>>(s) {
                    Ok(v) => { if v.iter().any(|x| { let o = x.get().as_ptr() as usize; o < s.as_ptr() as usize || o + x.get().len() > s.as_ptr() as usize + s.len() }) { "NOTSUB".to_string() }
                               else { format!("OK:Q{};{}", v.len(), v.iter().map(|x| format!("s{};", hex(x.get().as_bytes()))).collect::<String>()) } }
                    Err(e) => show_err(&e) };
                if boxed == borrowed { boxed } else { format!("DIFF:{}/{}", boxed, borrowed) } }), None => "-".into() });
            outs.push(g(|| show_vec(serde_json::from_slice::<Vec<Box<RawValue>>>(b))));
            outs.push(g(|| show_vec(serde_json::from_reader::<_, Vec<Box<RawValue>>>(Chunked::new(b, sizes)))));
        } else {
            outs.push(match st { Some(s) => g(|| show_pairs(serde_json::from_str::<Pairs>(s))), None => "-".into() });
            outs.push(g(|| show_pairs(serde_json::from_slice::<Pairs>(b))));
            outs.push(g(|| show_pairs(serde_json::from_reader::<_, Pairs>(Chunked::new(b, sizes)))));
        }
        outs.join("|")
    }
    pub fn emit_nest(sink: &mut Sink, cfg: &str, shape: &str, b: &[u8], r: &mut Rng, tag: &str) {
        let o = nest_obs(shape, b, chunk_sizes(r));
        let m = o.split('|').nth(1).unwrap_or("");
        let class = if m.starts_with("OK") { "captured" } else if m.contains(":eof:") { "eof" } else if m.contains(":data:") { "data" } else { "syntax" };
        sink.case("rawnest", &[cfg, shape, &hexf(b)], &o, &format!("rawnest:{}:{}:{}", tag, shape, class), b.len() > 2);
    }

    fn wsp(r: &mut Rng) -> Vec<u8> { let mut w = vec![]; for _ in 0..r.below(3) { w.push(*r.pick(&[b' ', b'\n', b'\t', b'\r'])); } w }
    fn gen_array(r: &mut Rng) -> Vec<u8> {
        let n = r.below(5);
        let mut doc = wsp(r); doc.push(b'['); doc.extend(wsp(r));
        for i in 0..n { if i > 0 { doc.push(b','); doc.extend(wsp(r)); } gen_doc_into(r, 2, &mut doc); doc.extend(wsp(r)); }
        doc.push(b']'); doc.extend(wsp(r)); doc
    }
    fn gen_object(r: &mut Rng) -> Vec<u8> {
        let n = r.below(5);
        let mut doc = wsp(r); doc.push(b'{'); doc.extend(wsp(r));
        for i in 0..n {
            if i > 0 { doc.push(b','); doc.extend(wsp(r)); }
            if r.chance(1, 3) { doc.extend_from_slice(*r.pick(&[&b"\"a\""[..], b"\"b\"", b"\"\\u0061\"", b"\"\""])); } else { doc.extend_from_slice(&gen_string_text(r)); }
            doc.extend(wsp(r)); doc.push(b':'); doc.extend(wsp(r)); gen_doc_into(r, 2, &mut doc); doc.extend(wsp(r));
        }
        doc.push(b'}'); doc.extend(wsp(r)); doc
    }

    pub fn run_c19(sink: &mut Sink, thorough: bool, seed: u64) {
        let mut r = Rng::new(seed ^ 0x5eed_19);
        let cfg = cfg_tag();
        // serialising
        for t in ["1", "{\"a\" : [ ] }", "\"x\"", "[1, 2]"] {
            let raw = || RProg::Raw(RawValue::from_string(t.to_string()).unwrap());
            emit_ser(sink, &raw(), "corpus");
            emit_ser(sink, &RProg::Seq(Some(2), vec![raw(), raw()]), "corpus");
            emit_ser(sink, &RProg::Seq(None, vec![RProg::Leaf(Prog::Unit), raw()]), "corpus");
            emit_ser(sink, &RProg::Struct(vec![("a", raw()), ("b", RProg::Seq(None, vec![]))]), "corpus");
            emit_ser(sink, &RProg::Map(None, vec![(RProg::Leaf(Prog::Str("k".into())), raw())]), "corpus");
            emit_ser(sink, &RProg::Map(Some(1), vec![(raw(), raw())]), "corpus");
            emit_ser(sink, &RProg::NewtypeVariant("V", Box::new(raw())), "corpus");
            emit_ser(sink, &RProg::TupleVariant("V", vec![raw(), RProg::Some(Box::new(raw()))]), "corpus");
            emit_ser(sink, &RProg::StructVariant("V", vec![("a", RProg::Newtype(Box::new(raw())))]), "corpus");
        }
        for _ in 0..(if thorough { 6000 } else { 600 }) { let p = gen_rprog(&mut r, 3); emit_ser(sink, &p, "gen"); }
        // nested capture
        for s in ["[]", " [ ] ", "[1]", "[1,2]", " [ 1 , [2, 3] ,\n{\"a\":\"]\"} ] ", "[1,]", "[,1]", "[1 2]", "[1", "[1,", "[", "[\"\\ud800\",1e999,-0]", "[1]x", "1", "{}", "null",
                  "[[[[[[[[[[[[[[[[[[[[[[[[[[[[[[[[[[[[[[[[[[[[[[[[[[[[[[[[[[[[[[[[[[[[[[[[[[[[[[[[[[[[[[[[[[[[[[[[[[[[[[[[[[[[[[[[[[[[[[[[[[[[[[[[[[[[[[[[1]]]]]]]]]]]]]]]]]]]]]]]]]]]]]]]]]]]]]]]]]]]]]]]]]]]]]]]]]]]]]]]]]]]]]]]]]]]]]]]]]]]]]]]]]]]]]]]]]]]]]]]]]]]]]]]]]]]]]]]]]]]]]]]]]]]]]]]]]]]]"] {
            emit_nest(sink, &cfg, "arr", s.as_bytes(), &mut r, "corpus");
        }
        emit_nest(sink, &cfg, "arr", b"[\"\xff\", 1]", &mut r, "corpus");
        emit_nest(sink, &cfg, "arr", b"[1, \"\xff\"]x", &mut r, "corpus");
        emit_nest(sink, &cfg, "obj", b"{\"k\":\"\xff\"}", &mut r, "corpus");
        emit_nest(sink, &cfg, "obj", b"{\"\xff\":1}", &mut r, "corpus");
        for s in ["{}", " { } ", "{\"a\":1}", "{\"a\" : 1 , \"a\":[2]}", "{\"a\":1,}", "{,}", "{\"a\"}", "{\"a\":}", "{\"a\":1 \"b\":2}", "{\"a\":1", "{\"a\"", "{", "{1:2}", "{\"\\ud800\":1}",
                  "{\"a\\n\\u00e9\":{\"b\":[ ]}}", "[]", "1", "{\"a\":1}x"] {
            emit_nest(sink, &cfg, "obj", s.as_bytes(), &mut r, "corpus");
        }
        // exhaustive short token sequences, bare and wrapped
        let toks = tokens();
        for len in 1..=(if thorough { 3 } else { 2 }) {
            let mut inputs: Vec<Vec<u8>> = vec![];
            exhaustive(&toks, len, 0, 1, |b| inputs.push(b.to_vec()));
            for b in inputs {
                emit_nest(sink, &cfg, "arr", &b, &mut r, &format!("exh{}", len));
                let w = [&b"["[..], &b, b"]"].concat(); emit_nest(sink, &cfg, "arr", &w, &mut r, &format!("exhw{}", len));
                let w = [&b"[1,"[..], &b].concat(); emit_nest(sink, &cfg, "arr", &w, &mut r, &format!("exhw{}", len));
                if len < 3 || b.len() % 3 == 0 {
                    emit_nest(sink, &cfg, "obj", &b, &mut r, &format!("exh{}", len));
                    let w = [&b"{\"k\":"[..], &b, b"}"].concat(); emit_nest(sink, &cfg, "obj", &w, &mut r, &format!("exhw{}", len));
                    let w = [&b"{"[..], &b, b":1}"].concat(); emit_nest(sink, &cfg, "obj", &w, &mut r, &format!("exhw{}", len));
                }
            }
        }
        for _ in 0..(if thorough { 8000 } else { 800 }) {
            let a = gen_array(&mut r);
            emit_nest(sink, &cfg, "arr", &a, &mut r, "doc");
            for _ in 0..3 { let m = mutate(&a, &mut r); emit_nest(sink, &cfg, "arr", &m, &mut r, "mut"); }
            if r.chance(1, 4) { for k in 0..a.len() { emit_nest(sink, &cfg, "arr", &a[..k], &mut r, "prefix"); } }
            let o = gen_object(&mut r);
            emit_nest(sink, &cfg, "obj", &o, &mut r, "doc");
            for _ in 0..3 { let m = mutate(&o, &mut r); emit_nest(sink, &cfg, "obj", &m, &mut r, "mut"); }
            if r.chance(1, 4) { for k in 0..o.len() { emit_nest(sink, &cfg, "obj", &o[..k], &mut r, "prefix"); } }
        }
    }

    /// `Box<RawValue>` from the three sources: `R<hex text>` or the error
    pub fn raw3_obs(b: &[u8], sizes: Vec<usize>) -> String {
        let show = |r: serde_json::Result<Box<RawValue>>| match r { Ok(x) => format!("R{}", hexf(x.get().as_bytes())), Err(e) => show_err(&e) };
        let s = match std::str::from_utf8(b) { Ok(s) => g(|| show(serde_json::from_str::<Box<RawValue>>(s))), Err(_) => "-".into() };
        format!("{}|{}|{}", s, g(|| show(serde_json::from_slice::<Box<RawValue>>(b))), g(|| show(serde_json::from_reader::<_, Box<RawValue>>(Chunked::new(b, sizes)))))
    }
    pub fn emit_raw3(sink: &mut Sink, cfg: &str, b: &[u8], r: &mut Rng, tag: &str) {
        let o = raw3_obs(b, chunk_sizes(r));
        let m = o.split('|').nth(1).unwrap_or("");
        let class = if m.starts_with('R') { "captured" } else if m.contains(":eof:") { "eof" } else { "syntax" };
        sink.case("raw3", &[cfg, &hexf(b)], &o, &format!("raw3:{}:{}", tag, class), b.len() > 1);
    }
    pub fn run_c09(sink: &mut Sink, thorough: bool, seed: u64) {
        let mut r = Rng::new(seed ^ 0x5eed_0919);
        let cfg = cfg_tag();
        for s in [" 1 ", "\n[1, 2]\t", "  \"a\\u00e9\"  ", "{\"a\" : [ ] }", " 1 2", "1e999", "\"\\ud800\"", "\n\n [1,\n", "\"\u{e9}\" x", "[\"\u{e9}\",\n\"\u{1f600}\"]\n\nx"] {
            emit_raw3(sink, &cfg, s.as_bytes(), &mut r, "corpus");
        }
        emit_raw3(sink, &cfg, b" \"\xff\" ", &mut r, "corpus");
        emit_raw3(sink, &cfg, b"[1, \"\xc3\"]\n x", &mut r, "corpus");
        let toks = tokens();
        for len in 1..=(if thorough { 3 } else { 2 }) {
            let mut inputs: Vec<Vec<u8>> = vec![];
            exhaustive(&toks, len, 0, 1, |b| inputs.push(b.to_vec()));
            for b in inputs { emit_raw3(sink, &cfg, &b, &mut r, &format!("exh{}", len)); }
        }
        for _ in 0..(if thorough { 8000 } else { 800 }) {
            let mut d = gen_doc(&mut r, 3);
            for b in d.iter_mut() { if *b == b' ' && r.chance(1, 2) { *b = b'\n'; } }
            emit_raw3(sink, &cfg, &d, &mut r, "doc");
            for _ in 0..3 { let m = mutate(&d, &mut r); emit_raw3(sink, &cfg, &m, &mut r, "mut"); }
            let a = gen_array(&mut r);
            emit_nest(sink, &cfg, "arr", &a, &mut r, "doc");
            for _ in 0..2 { let m = mutate(&a, &mut r); emit_nest(sink, &cfg, "arr", &m, &mut r, "mut"); }
            let o = gen_object(&mut r);
            emit_nest(sink, &cfg, "obj", &o, &mut r, "doc");
            for _ in 0..2 { let m = mutate(&o, &mut r); emit_nest(sink, &cfg, "obj", &m, &mut r, "mut"); }
        }
    }

    pub fn replay(sink: &mut Sink, toks: &[&str]) {
        match toks[0] {
            "raw3" if toks.len() >= 3 => {
                let b = unhex(toks[2]);
                sink.case("raw3", &[&cfg_tag(), toks[2]], &raw3_obs(&b, vec![1]), "replay", true);
            }
            "rawser" if toks.len() >= 3 => {
                let p = dec_rprog(toks[2]);
                let fmt: Option<Vec<u8>> = if toks[1] == "c" { None } else { Some(unhex(&toks[1][1..])) };
                let o = obs(fmt.as_deref(), &p);
                sink.case("rawser", &[toks[1], toks[2]], &o, "replay", true);
            }
            "rawnest" if toks.len() >= 4 => {
                let b = unhex(toks[3]);
                let o = nest_obs(toks[2], &b, vec![1]);
                sink.case("rawnest", &[&cfg_tag(), toks[2], toks[3]], &o, "replay", true);
            }
            _ => eprintln!("cannot replay {:?}", toks),
        }
    }
}

// ------------------------------------------------------------------------------------------------ streams

use serde::de::IgnoredAny;
use serde_json::{Deserializer, StreamDeserializer, Value};

fn item_value(r: Option<serde_json::Result<Value>>) -> (String, bool) {
    match r { None => ("N".into(), false), Some(Ok(v)) => (format!("V{}", enc(&v)), false), Some(Err(e)) => (show_err(&e), true) }
}
fn item_ignored(r: Option<serde_json::Result<IgnoredAny>>) -> (String, bool) {
    match r { None => ("N".into(), false), Some(Ok(_)) => ("U".into(), false), Some(Err(e)) => (show_err(&e), true) }
}
/// `calls` calls of next(), byte_offset() after each (format of op `stream`: after an error `N` without offset)
fn hist<'de, R: serde_json::de::Read<'de>, T: serde::Deserialize<'de>>(mut s: StreamDeserializer<'de, R, T>,
        show: fn(Option<serde_json::Result<T>>) -> (String, bool), calls: usize) -> String {
    let mut out: Vec<String> = vec![];
    let mut after_err = false;
    for _ in 0..calls {
        let (o, is_err) = show(s.next());
        let off = s.byte_offset();
        if o == "N" && after_err { out.push("N".into()); } else { out.push(format!("{}@{}", o, off)); }
        if is_err { after_err = true; }
    }
    out.join(",")
}
/// one source's history; `nolimit`: `disable_recursion_limit()` (feature ud)
pub fn history(tgt: &str, src: &str, b: &[u8], calls: usize, sizes: Vec<usize>, nolimit: bool) -> String {
    let _ = nolimit;
    macro_rules! go { ($de:expr) => {{
        #[allow(unused_mut)]
        let mut de = $de;
        #[cfg(feature = "ud")]
        { if nolimit { de.disable_recursion_limit(); } }
        if tgt == "value" { hist(de.into_iter::<Value>(), item_value, calls) } else { hist(de.into_iter::<IgnoredAny>(), item_ignored, calls) }
    }}; }
    g(|| match src {
        "str" => match std::str::from_utf8(b) { Ok(s) => go!(Deserializer::from_str(s)), Err(_) => "-".into() },
        "slice" => go!(Deserializer::from_slice(b)),
        _ => go!(Deserializer::from_reader(Chunked::new(b, sizes))),
    })
}

fn hclass(o: &str) -> &'static str { if o.contains(":syntax:") { "syntax" } else if o.contains(":eof:") { "eof" } else if o.contains("PANIC") { "panic" } else { "clean" } }

pub fn emit_stream3(sink: &mut Sink, cfg: &str, b: &[u8], calls: usize, r: &mut Rng, tag: &str) {
    for tgt in ["value", "ignored"] {
        let sizes = chunk_sizes(r);
        let o = format!("{}|{}|{}", history(tgt, "str", b, calls, vec![], false), history(tgt, "slice", b, calls, vec![], false), history(tgt, "reader", b, calls, sizes, false));
        sink.case("stream3", &[cfg, tgt, &calls.to_string(), &hexf(b)], &o, &format!("stream3:{}:{}:{}", tag, tgt, hclass(o.split('|').nth(1).unwrap_or(""))), b.len() > 1);
    }
}

const STREAM_CORPUS: &[&str] = &["", " ", "1", "1 ", "1 2", "12 3", "1x", "1,2", "[1][2]", "[0] [1] [", "{\"k\": 3}1\"cool\"\"stuff\" 3{}  [0, 1, 2]", "true false", "truefalse", "nullnull",
    "null[]", "\"a\"\"b\"", "1\"a\"", "1.5e3 ", "-", "1e", "\"\\u12", "\"\\ud800", "\"\\ud800\\u", "[1,", "{\"a\"", "1]", "1}", "1:", "tru", "truex", "0 1 2 3 4 5 6", "\n1\n2\n",
    "1e999 2", "[1e999] 2", "\"\\ud800\" 1", "1/2", "1-2", "1+2", "1.2.3", "1e5e5", "[] x", "x", "\"\u{e9}\"\n\"\u{e9}\u{1f600}\" \n x", "[\n1,\n2]\n\n[3", "1\n\n2\n\n\u{1}"];

fn gen_stream(r: &mut Rng) -> (Vec<u8>, usize) {
    let k = 1 + r.below(4);
    let mut s: Vec<u8> = vec![];
    for i in 0..k {
        let mut v = vec![]; gen_doc_into(r, 2, &mut v);
        if i > 0 || r.chance(1, 3) { match r.below(5) { 0 => {}, 1 => s.push(b' '), 2 => s.push(b'\n'), 3 => s.extend_from_slice(b"\r\n"), _ => s.extend_from_slice(b" \t") } }
        s.extend_from_slice(&v);
    }
    if r.chance(1, 3) { s.push(*r.pick(&[b' ', b'\n'])); }
    (s, k)
}

/// C09: whole histories from the three sources side by side (random chunkings), and raw captures
pub fn run_c09(sink: &mut Sink, thorough: bool, seed: u64) {
    let mut r = Rng::new(seed ^ 0x5eed_09);
    let cfg = cfg_tag();
    for s in STREAM_CORPUS { emit_stream3(sink, &cfg, s.as_bytes(), 5, &mut r, "corpus"); }
    emit_stream3(sink, &cfg, b"1 \"\xff\" 2", 4, &mut r, "corpus");
    emit_stream3(sink, &cfg, b"[\"\xc3\"] 2", 4, &mut r, "corpus");
    let toks = tokens();
    for len in 1..=(if thorough { 3 } else { 2 }) {
        let mut inputs: Vec<Vec<u8>> = vec![];
        exhaustive(&toks, len, 0, 1, |b| inputs.push(b.to_vec()));
        for b in inputs { emit_stream3(sink, &cfg, &b, len + 3, &mut r, &format!("exh{}", len)); }
    }
    for _ in 0..(if thorough { 6000 } else { 600 }) {
        let (s, k) = gen_stream(&mut r);
        emit_stream3(sink, &cfg, &s, k + 3, &mut r, "concat");
        if r.chance(1, 2) && !s.is_empty() { let cut = r.below(s.len()); emit_stream3(sink, &cfg, &s[..cut], k + 3, &mut r, "truncated"); }
        for _ in 0..2 { let m = mutate(&s, &mut r); emit_stream3(sink, &cfg, &m, k + 3, &mut r, "corrupted"); }
    }
    #[cfg(feature = "rv")]
    raw::run_c09(sink, thorough, seed);
}

// ------------------------------------------------------------------------------------------------ C14: sdepth

/// `d` containers around `1`: mix 0 = arrays, 1 = objects, 2 = alternating
pub fn nested(d: usize, mix: usize) -> Vec<u8> {
    let mut open = vec![]; let mut close = vec![];
    for i in 0..d {
        let obj = match mix { 0 => false, 1 => true, _ => i % 2 == 0 };
        if obj { open.extend_from_slice(b"{\"a\":"); close.insert(0, b'}'); } else { open.push(b'['); close.insert(0, b']'); }
    }
    let mut doc = open; doc.push(b'1'); doc.extend_from_slice(&close); doc
}

pub fn emit_sdepth(sink: &mut Sink, cfg: &str, tgt: &str, src: &str, d1: usize, k1: usize, sep: &[u8], d2: usize, k2: usize, nolimit: bool) {
    let mut doc = nested(d1, k1); doc.extend_from_slice(sep); doc.extend_from_slice(&nested(d2, k2));
    let doc2 = doc.clone(); let tgt2 = tgt.to_string(); let src2 = src.to_string();
    // deep recursion with the limit disabled needs a big stack
    let o = std::thread::Builder::new().stack_size(256 << 20).spawn(move || history(&tgt2, &src2, &doc2, 4, vec![3, 1, 2], nolimit)).unwrap().join().unwrap_or("PANIC".into());
    let cfgs = if nolimit { format!("{}+nolimit", cfg) } else { cfg.to_string() };
    let class = |d: usize| if d > 127 { "deep" } else if d == 127 { "max" } else { "ok" };
    sink.case("sdepth", &[&cfgs, tgt, src, "4", &d1.to_string(), &k1.to_string(), &hexf(sep), &d2.to_string(), &k2.to_string()], &o,
        &format!("sdepth:{}:{}:{}-{}", tgt, if nolimit { "nolimit" } else { "limit" }, class(d1), class(d2)), true);
}

pub fn run_c14(sink: &mut Sink, thorough: bool, seed: u64) {
    let mut r = Rng::new(seed ^ 0x5eed_14);
    let cfg = cfg_tag();
    let depths: &[usize] = &[0, 1, 2, 126, 127, 128, 129, 200];
    for &d1 in depths { for &d2 in depths {
        if !thorough && d1 < 126 && d2 < 126 && !(d1 == 1 && d2 == 1) { continue; }
        for (k1, k2) in [(0usize, 0usize), (1, 1), (2, 0), (0, 2)] {
            for src in ["str", "slice", "reader"] {
                for tgt in ["value", "ignored"] {
                    if tgt == "ignored" && (k1, k2) != (0, 0) && !thorough { continue; }
                    let sep: &[u8] = *r.pick(&[&b" "[..], b"", b"\n", b" \t "]);
                    emit_sdepth(sink, &cfg, tgt, src, d1, k1, sep, d2, k2, false);
                    #[cfg(feature = "ud")]
                    { if d1 >= 127 || d2 >= 127 { emit_sdepth(sink, &cfg, tgt, src, d1, k1, sep, d2, k2, true); } }
                }
            }
        }
    } }
}

// ------------------------------------------------------------------------------------------------ C10: spfx

pub fn emit_spfx(sink: &mut Sink, cfg: &str, b: &[u8], calls: usize, r: &mut Rng, tag: &str) {
    for tgt in ["value", "ignored"] {
        let src = *r.pick(&["str", "slice", "reader"]);
        let sizes = chunk_sizes(r);
        let hs: Vec<String> = (0..=b.len()).map(|k| history(tgt, src, &b[..k], calls, sizes.clone(), false)).collect();
        let full = hs.last().cloned().unwrap_or_default();
        sink.case("spfx", &[cfg, tgt, src, &calls.to_string(), &hexf(b)], &hs.join("/"), &format!("spfx:{}:{}:{}:{}", tag, tgt, src, hclass(&full)), b.len() > 1);
    }
}

pub fn run_c10(sink: &mut Sink, thorough: bool, seed: u64) {
    let mut r = Rng::new(seed ^ 0x5eed_10);
    let cfg = cfg_tag();
    for s in ["1", "1 2", "12 3", "[1][2]", "[0] [1] [2]", "{\"k\": 3}1\"cool\"\"stuff\" 3{}  [0, 1, 2]", "true false", "null[]", "\"a\"\"b\"", "1\"a\"", "1.5e3 -2E-7\n0",
              "\"\\u00e9\\ud83d\\ude00\" \"\u{e9}\"", "[[[[]]]]{\"a\":{\"b\":[1,{}]}}", "-0 -1 -1.0 1e5", " \n\t1\r\n", "nul", "1x 2", "[1,] 2"] {
        emit_spfx(sink, &cfg, s.as_bytes(), 8, &mut r, "corpus");
    }
    // the inherent exception: a prefix that is a complete out-of-range number literal (known finding)
    let big = format!("1{}e-395 2", "0".repeat(400));
    emit_spfx(sink, &cfg, big.as_bytes(), 3, &mut r, "corpus-range");
    let toks = tokens();
    for len in 1..=(if thorough { 3 } else { 2 }) {
        let mut inputs: Vec<Vec<u8>> = vec![];
        exhaustive(&toks, len, 0, 1, |b| inputs.push(b.to_vec()));
        for b in inputs {
            // only streams that start with a value are informative
            if history("ignored", "slice", &b, 1, vec![], false).starts_with('U') { emit_spfx(sink, &cfg, &b, len + 2, &mut r, &format!("exh{}", len)); }
        }
    }
    for _ in 0..(if thorough { 3000 } else { 300 }) {
        let (s, k) = gen_stream(&mut r);
        emit_spfx(sink, &cfg, &s, k + 2, &mut r, "concat");
    }
}

pub fn replay(sink: &mut Sink, toks: &[&str]) {
    let cfg = cfg_tag();
    match toks[0] {
        #[cfg(feature = "rv")]
        "rawser" | "rawnest" | "raw3" => raw::replay(sink, toks),
        "stream3" if toks.len() >= 5 => {
            let b = unhex(toks[4]); let calls: usize = toks[3].parse().unwrap_or(4);
            let o = format!("{}|{}|{}", history(toks[2], "str", &b, calls, vec![], false), history(toks[2], "slice", &b, calls, vec![], false), history(toks[2], "reader", &b, calls, vec![1], false));
            sink.case("stream3", &[&cfg, toks[2], toks[3], toks[4]], &o, "replay", true);
        }
        "sdepth" if toks.len() >= 10 => {
            let p = |i: usize| toks[i].parse::<usize>().unwrap_or(0);
            emit_sdepth(sink, &cfg, toks[2], toks[3], p(5), p(6), &unhex(toks[7]), p(8), p(9), toks[1].contains("nolimit"));
        }
        "spfx" if toks.len() >= 6 => {
            let b = unhex(toks[5]); let calls: usize = toks[4].parse().unwrap_or(4);
            let hs: Vec<String> = (0..=b.len()).map(|k| history(toks[2], toks[3], &b[..k], calls, vec![1], false)).collect();
            sink.case("spfx", &[&cfg, toks[2], toks[3], toks[4], toks[5]], &hs.join("/"), "replay", true);
        }
        _ => eprintln!("cannot replay op {}", toks[0]),
    }
}
