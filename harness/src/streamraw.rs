//! Streams and raw values, second round (docs/STREAMRAW-NOTES.md): the ops behind the theorems
//! `c19_verbatim`, `c19_nested_*`, `c09_stream_offsets`, `c09_raw_sources`, `c14_stream_depth_restored`,
//! `c10_stream_prefix`.
//!
//! * `rawser <fmt> <rprog> => OK:buf,buf,… | ERR:class`  (rv) — a serializer program with `RawValue`s at
//!   arbitrary positions through a recording writer, compact (`c`) or pretty (`p<hexindent>`).
//! * `rawnest <cfg> <shape> <hex doc> => str|slice|reader`  (rv) — `Vec<Box<RawValue>>` (`arr`) or the
//!   entries of a map of `Box<RawValue>` in source order (`obj`) from the three sources.
//! * `stream3 <cfg> <tgt> <calls> <hex> => str|slice|reader` — whole `next()`/`byte_offset()` histories from
//!   the three sources side by side (C09).
//! * `sdepth <cfg> <src> <calls> <d1> <k1> <d2> <k2> => history` — a stream of two items nested `d1` / `d2`
//!   deep (bracket mix `k`), histories as in `stream` (C14: the depth budget is restored between items).
//! * `spfx <cfg> <tgt> <src> <calls> <hex> => h_0;h_1;…;h_n` — the stream history over every prefix (C10).
#![allow(dead_code)]
use crate::common::*;
use crate::gen::*;
use crate::obs::*;

fn g<F: FnOnce() -> String>(f: F) -> String { std::panic::catch_unwind(std::panic::AssertUnwindSafe(f)).unwrap_or("PANIC".into()) }

// ------------------------------------------------------------------------------------------------ C19: rawser

#[cfg(feature = "rv")]
pub mod raw {
    use super::*;
    use crate::prog::*;
    use serde::ser::{Serialize, SerializeMap, SerializeSeq, SerializeStruct, SerializeStructVariant, SerializeTuple,
        SerializeTupleStruct, SerializeTupleVariant, Serializer};
    use serde_json::value::RawValue;

    /// serializer programs with `RawValue`s inside (`lean/SJ/Model/SerRaw.lean` `RVal`)
    pub enum RProg {
        Raw(Box<RawValue>), Leaf(Prog), Some(Box<RProg>), Newtype(Box<RProg>), NewtypeVariant(&'static str, Box<RProg>),
        Seq(Option<usize>, Vec<RProg>), Tuple(Vec<RProg>), TupleStruct(Vec<RProg>), TupleVariant(&'static str, Vec<RProg>),
        Map(Option<usize>, Vec<(RProg, RProg)>), Struct(Vec<(&'static str, RProg)>), StructVariant(&'static str, Vec<(&'static str, RProg)>),
    }

    impl Serialize for RProg {
        fn serialize<S: Serializer>(&self, s: S) -> Result<S::Ok, S::Error> {
            match self {
                RProg::Raw(r) => r.serialize(s),
                RProg::Leaf(p) => p.serialize(s),
                RProg::Some(p) => s.serialize_some(&**p),
                RProg::Newtype(p) => s.serialize_newtype_struct("T", &**p),
                RProg::NewtypeVariant(v, p) => s.serialize_newtype_variant("E", 0, *v, &**p),
                RProg::Seq(h, xs) => { let mut q = s.serialize_seq(*h)?; for x in xs { q.serialize_element(x)?; } q.end() }
                RProg::Tuple(xs) => { let mut q = s.serialize_tuple(xs.len())?; for x in xs { q.serialize_element(x)?; } q.end() }
                RProg::TupleStruct(xs) => { let mut q = s.serialize_tuple_struct("T", xs.len())?; for x in xs { q.serialize_field(x)?; } q.end() }
                RProg::TupleVariant(v, xs) => { let mut q = s.serialize_tuple_variant("E", 0, *v, xs.len())?; for x in xs { q.serialize_field(x)?; } q.end() }
                RProg::Map(h, es) => { let mut q = s.serialize_map(*h)?; for (k, v) in es { q.serialize_key(k)?; q.serialize_value(v)?; } q.end() }
                RProg::Struct(fs) => { let mut q = s.serialize_struct("T", fs.len())?; for (n, v) in fs { q.serialize_field(*n, v)?; } q.end() }
                RProg::StructVariant(v, fs) => { let mut q = s.serialize_struct_variant("E", 0, *v, fs.len())?; for (n, x) in fs { q.serialize_field(*n, x)?; } q.end() }
            }
        }
    }

    fn hx(o: &mut String, b: &[u8]) { o.push_str(&hex(b)); o.push(';'); }
    fn hint(o: &mut String, h: &Option<usize>) { match h { None => o.push('-'), Some(n) => o.push_str(&n.to_string()) } o.push(';'); }
    pub fn enc_rprog(p: &RProg, o: &mut String) {
        match p {
            RProg::Raw(r) => { o.push('W'); hx(o, r.get().as_bytes()); }
            RProg::Leaf(q) => { o.push('L'); o.push_str(&enc_prog(q)); }
            RProg::Some(q) => { o.push('S'); enc_rprog(q, o); }
            RProg::Newtype(q) => { o.push('N'); enc_rprog(q, o); }
            RProg::NewtypeVariant(v, q) => { o.push('V'); hx(o, v.as_bytes()); enc_rprog(q, o); }
            RProg::Seq(h, xs) => { o.push('q'); hint(o, h); o.push_str(&format!("{};", xs.len())); for x in xs { enc_rprog(x, o); } }
            RProg::Tuple(xs) => { o.push_str(&format!("t{};", xs.len())); for x in xs { enc_rprog(x, o); } }
            RProg::TupleStruct(xs) => { o.push_str(&format!("T{};", xs.len())); for x in xs { enc_rprog(x, o); } }
            RProg::TupleVariant(v, xs) => { o.push('X'); hx(o, v.as_bytes()); o.push_str(&format!("{};", xs.len())); for x in xs { enc_rprog(x, o); } }
            RProg::Map(h, es) => { o.push('m'); hint(o, h); o.push_str(&format!("{};", es.len())); for (k, v) in es { enc_rprog(k, o); enc_rprog(v, o); } }
            RProg::Struct(fs) => { o.push_str(&format!("r{};", fs.len())); for (n, v) in fs { hx(o, n.as_bytes()); enc_rprog(v, o); } }
            RProg::StructVariant(v, fs) => { o.push('R'); hx(o, v.as_bytes()); o.push_str(&format!("{};", fs.len())); for (n, x) in fs { hx(o, n.as_bytes()); enc_rprog(x, o); } }
        }
    }

    struct Dec<'a> { b: &'a [u8], i: usize }
    impl<'a> Dec<'a> {
        fn until(&mut self, stop: u8) -> &'a str { let st = self.i; while self.b[self.i] != stop { self.i += 1; } let r = std::str::from_utf8(&self.b[st..self.i]).unwrap(); self.i += 1; r }
        fn bytes(&mut self) -> Vec<u8> { let t = self.until(b';'); if t.is_empty() { vec![] } else { unhex(t) } }
        fn name(&mut self) -> &'static str { name_of(&self.bytes()) }
        fn count(&mut self) -> usize { self.until(b';').parse().expect("count") }
        fn hint(&mut self) -> Option<usize> { let t = self.until(b';'); if t == "-" { None } else { Some(t.parse().expect("hint")) } }
        fn list(&mut self, n: usize) -> Vec<RProg> { (0..n).map(|_| self.rprog()).collect() }
        fn fields(&mut self, n: usize) -> Vec<(&'static str, RProg)> { (0..n).map(|_| { let k = self.name(); (k, self.rprog()) }).collect() }
        fn leaf(&mut self) -> Prog {
            let rest = std::str::from_utf8(&self.b[self.i..]).unwrap();
            let p = dec_prog_prefix(rest);
            self.i += p.1;
            p.0
        }
        fn rprog(&mut self) -> RProg {
            let c = self.b[self.i]; self.i += 1;
            match c {
                b'W' => { let t = String::from_utf8(self.bytes()).unwrap(); RProg::Raw(RawValue::from_string(t).expect("raw text")) }
                b'L' => RProg::Leaf(self.leaf()),
                b'S' => RProg::Some(Box::new(self.rprog())),
                b'N' => RProg::Newtype(Box::new(self.rprog())),
                b'V' => { let v = self.name(); RProg::NewtypeVariant(v, Box::new(self.rprog())) }
                b'q' => { let h = self.hint(); let n = self.count(); RProg::Seq(h, self.list(n)) }
                b't' => { let n = self.count(); RProg::Tuple(self.list(n)) }
                b'T' => { let n = self.count(); RProg::TupleStruct(self.list(n)) }
                b'X' => { let v = self.name(); let n = self.count(); RProg::TupleVariant(v, self.list(n)) }
                b'm' => { let h = self.hint(); let n = self.count(); RProg::Map(h, (0..n).map(|_| { let k = self.rprog(); (k, self.rprog()) }).collect()) }
                b'r' => { let n = self.count(); RProg::Struct(self.fields(n)) }
                b'R' => { let v = self.name(); let n = self.count(); RProg::StructVariant(v, self.fields(n)) }
                _ => panic!("bad rprog wire byte {:?}", c as char),
            }
        }
    }
    pub fn dec_rprog(s: &str) -> RProg { let mut d = Dec { b: s.as_bytes(), i: 0 }; d.rprog() }

    fn raw_text(r: &mut Rng) -> Box<RawValue> {
        let mut v = vec![];
        match r.below(10) {
            0 => v.extend_from_slice(b"null"), 1 => v.extend_from_slice(b"{ }"), 2 => v.extend_from_slice(b"[1 ,\n2]"),
            3 => v.extend_from_slice(b"\"\\u00e9\\n\""), 4 => v.extend_from_slice(b"-0.0e+00"), 5 => v.extend_from_slice(b"1e999"),
            6 => v.extend_from_slice(b"\"\\ud800\""),
            _ => gen_doc_into(r, 2, &mut v),
        }
        RawValue::from_string(String::from_utf8(v).unwrap()).expect("generated raw text is JSON")
    }
    fn size(r: &mut Rng) -> usize { match r.below(6) { 0 => 0, 1 | 2 => 1, 3 => 2, 4 => 3, _ => 4 } }
    fn ghint(r: &mut Rng, n: usize) -> Option<usize> { if r.chance(1, 2) { None } else { Some(n) } }
    fn gen_rkey(r: &mut Rng, d: usize) -> RProg {
        match r.below(24) {
            0 => RProg::Raw(raw_text(r)),                                   // KeyMustBeAString
            1 => RProg::Some(Box::new(RProg::Raw(raw_text(r)))),
            2 => RProg::Newtype(Box::new(RProg::Leaf(gen_valid_key(r, d)))),
            3 => RProg::Some(Box::new(RProg::Leaf(gen_key(r, d)))),
            4 => RProg::Seq(None, vec![]),
            _ => RProg::Leaf(gen_key(r, d)),
        }
    }
    pub fn gen_rprog(r: &mut Rng, depth: usize) -> RProg {
        if depth == 0 || r.chance(1, 4) { return if r.chance(2, 3) { RProg::Raw(raw_text(r)) } else { RProg::Leaf(gen_prog(r, 1)) }; }
        let d = depth - 1;
        match r.below(14) {
            0 => RProg::Some(Box::new(gen_rprog(r, d))),
            1 => RProg::Newtype(Box::new(gen_rprog(r, d))),
            2 => RProg::NewtypeVariant(gen_name(r), Box::new(gen_rprog(r, d))),
            3 | 4 | 5 => { let n = size(r); let h = ghint(r, n); RProg::Seq(h, (0..n).map(|_| gen_rprog(r, d)).collect()) }
            6 => { let n = size(r); RProg::Tuple((0..n).map(|_| gen_rprog(r, d)).collect()) }
            7 => { let n = size(r); RProg::TupleStruct((0..n).map(|_| gen_rprog(r, d)).collect()) }
            8 => { let n = size(r); RProg::TupleVariant(gen_name(r), (0..n).map(|_| gen_rprog(r, d)).collect()) }
            9 | 10 => { let n = size(r); let h = ghint(r, n); RProg::Map(h, (0..n).map(|_| { let k = gen_rkey(r, d); (k, gen_rprog(r, d)) }).collect()) }
            11 | 12 => { let n = size(r); RProg::Struct((0..n).map(|_| (gen_name(r), gen_rprog(r, d))).collect()) }
            _ => { let n = size(r); RProg::StructVariant(gen_name(r), (0..n).map(|_| (gen_name(r), gen_rprog(r, d))).collect()) }
        }
    }
    fn has_raw(p: &RProg) -> bool {
        match p {
            RProg::Raw(_) => true, RProg::Leaf(_) => false,
            RProg::Some(q) | RProg::Newtype(q) | RProg::NewtypeVariant(_, q) => has_raw(q),
            RProg::Seq(_, xs) | RProg::Tuple(xs) | RProg::TupleStruct(xs) | RProg::TupleVariant(_, xs) => xs.iter().any(has_raw),
            RProg::Map(_, es) => es.iter().any(|(k, v)| has_raw(k) || has_raw(v)),
            RProg::Struct(fs) | RProg::StructVariant(_, fs) => fs.iter().any(|(_, v)| has_raw(v)),
        }
    }

    struct Rec<'a>(&'a mut Vec<Vec<u8>>);
    impl<'a> std::io::Write for Rec<'a> {
        fn write(&mut self, buf: &[u8]) -> std::io::Result<usize> { self.0.push(buf.to_vec()); Ok(buf.len()) }
        fn write_all(&mut self, buf: &[u8]) -> std::io::Result<()> { self.0.push(buf.to_vec()); Ok(()) }
        fn flush(&mut self) -> std::io::Result<()> { Ok(()) }
    }
    fn class(e: &serde_json::Error) -> String {
        let m = e.to_string();
        if m.starts_with("key must be a string") { "KeyMustBeAString".into() }
        else if m.starts_with("float key must be finite") { "FloatKeyMustBeFinite".into() }
        else { format!("Other:{}", m.replace(' ', "_")) }
    }
    fn obs(fmt: Option<&[u8]>, p: &RProg) -> String {
        g(|| {
            let mut bufs: Vec<Vec<u8>> = Vec::new();
            let r = match fmt {
                None => { let mut s = serde_json::Serializer::new(Rec(&mut bufs)); p.serialize(&mut s) }
                Some(ind) => { let mut s = serde_json::Serializer::with_formatter(Rec(&mut bufs), serde_json::ser::PrettyFormatter::with_indent(ind)); p.serialize(&mut s) }
            };
            // the flat bytes through the public entry points must be the concatenation of the buffers
            let flat: Vec<u8> = bufs.concat();
            let direct = match fmt { None => serde_json::to_vec(p).ok(), Some(b"  ") => serde_json::to_vec_pretty(p).ok(), _ => None };
            if let (Ok(()), Some(d)) = (&r, &direct) { if *d != flat { return format!("DIFF:{}", hexf(d)); } }
            match r {
                Ok(()) => if bufs.is_empty() { "OK:".to_string() } else { format!("OK:{}", bufs.iter().map(|b| hexf(b)).collect::<Vec<_>>().join(",")) },
                Err(e) => format!("ERR:{}", class(&e)),
            }
        })
    }
    fn fmt_tok(fmt: Option<&[u8]>) -> String { match fmt { None => "c".into(), Some(i) => format!("p{}", hexf(i)) } }

    pub fn emit_ser(sink: &mut Sink, p: &RProg, tag: &str) {
        let mut e = String::new(); enc_rprog(p, &mut e);
        for fmt in [None, Some(&b"  "[..]), Some(&b"\t"[..]), Some(&b""[..])] {
            let o = obs(fmt, p);
            let class = if o.starts_with("OK") { "ok" } else if o.starts_with("ERR") { "err" } else { "other" };
            sink.case("rawser", &[&fmt_tok(fmt), &e], &o, &format!("rawser:{}:{}:{}", tag, if fmt.is_none() { "compact" } else { "pretty" }, class), has_raw(p));
        }
    }

    // -------------------------------------------------------------------------------------------- C19: rawnest

    struct Pairs(Vec<(String, Box<RawValue>)>);
    impl<'de> serde::Deserialize<'de> for Pairs {
        fn deserialize<D: serde::Deserializer<'de>>(d: D) -> Result<Pairs, D::Error> {
            struct V;
            impl<'de> serde::de::Visitor<'de> for V {
                type Value = Pairs;
                fn expecting(&self, f: &mut std::fmt::Formatter) -> std::fmt::Result { f.write_str("a map") }
                fn visit_map<A: serde::de::MapAccess<'de>>(self, mut m: A) -> Result<Pairs, A::Error> {
                    let mut out = vec![];
                    while let Some(k) = m.next_key::<String>()? { let v = m.next_value::<Box<RawValue>>()?; out.push((k, v)); }
                    Ok(Pairs(out))
                }
            }
            d.deserialize_map(V)
        }
    }
    fn show_vec(r: serde_json::Result<Vec<Box<RawValue>>>) -> String {
        match r { Ok(v) => format!("OK:Q{};{}", v.len(), v.iter().map(|x| format!("s{};", hex(x.get().as_bytes()))).collect::<String>()), Err(e) => show_err(&e) }
    }
    fn show_pairs(r: serde_json::Result<Pairs>) -> String {
        match r { Ok(Pairs(v)) => format!("OK:M{};{}", v.len(), v.iter().map(|(k, x)| format!("s{};s{};", hex(k.as_bytes()), hex(x.get().as_bytes()))).collect::<String>()), Err(e) => show_err(&e) }
    }
    pub fn nest_obs(shape: &str, b: &[u8], sizes: Vec<usize>) -> String {
        let st = std::str::from_utf8(b).ok();
        let mut outs = vec![];
        if shape == "arr" {
            outs.push(match st { Some(s) => g(|| {
                let boxed = show_vec(serde_json::from_str::<Vec<Box<RawValue>>>(s));
                // the borrowed captures must be the same texts, as subslices of the input
                let borrowed = match serde_json::from_str::<Vec<&RawValue>>(s) {
                    Ok(v) => { if v.iter().any(|x| { let o = x.get().as_ptr() as usize; o < s.as_ptr() as usize || o + x.get().len() > s.as_ptr() as usize + s.len() }) { "NOTSUB".to_string() }
                               else { format!("OK:Q{};{}", v.len(), v.iter().map(|x| format!("s{};", hex(x.get().as_bytes()))).collect::<String>()) } }
                    Err(e) => show_err(&e) };
                if boxed == borrowed { boxed } else { format!("DIFF:{}/{}", boxed, borrowed) } }), None => "-".into() });
            outs.push(g(|| show_vec(serde_json::from_slice::<Vec<Box<RawValue>>>(b))));
            outs.push(g(|| show_vec(serde_json::from_reader::<_, Vec<Box<RawValue>>>(Chunked::new(b, sizes)))));
        } else {
            outs.push(match st { Some(s) => g(|| show_pairs(serde_json::from_str::<Pairs>(s))), None => "-".into() });
            outs.push(g(|| show_pairs(serde_json::from_slice::<Pairs>(b))));
            outs.push(g(|| show_pairs(serde_json::from_reader::<_, Pairs>(Chunked::new(b, sizes)))));
        }
        outs.join("|")
    }
    pub fn emit_nest(sink: &mut Sink, cfg: &str, shape: &str, b: &[u8], r: &mut Rng, tag: &str) {
        let o = nest_obs(shape, b, chunk_sizes(r));
        let m = o.split('|').nth(1).unwrap_or("");
        let class = if m.starts_with("OK") { "captured" } else if m.contains(":eof:") { "eof" } else if m.contains(":data:") { "data" } else { "syntax" };
        sink.case("rawnest", &[cfg, shape, &hexf(b)], &o, &format!("rawnest:{}:{}:{}", tag, shape, class), b.len() > 2);
    }

    fn wsp(r: &mut Rng) -> Vec<u8> { let mut w = vec![]; for _ in 0..r.below(3) { w.push(*r.pick(&[b' ', b'\n', b'\t', b'\r'])); } w }
    fn gen_array(r: &mut Rng) -> Vec<u8> {
        let n = r.below(5);
        let mut doc = wsp(r); doc.push(b'['); doc.extend(wsp(r));
        for i in 0..n { if i > 0 { doc.push(b','); doc.extend(wsp(r)); } gen_doc_into(r, 2, &mut doc); doc.extend(wsp(r)); }
        doc.push(b']'); doc.extend(wsp(r)); doc
    }
    fn gen_object(r: &mut Rng) -> Vec<u8> {
        let n = r.below(5);
        let mut doc = wsp(r); doc.push(b'{'); doc.extend(wsp(r));
        for i in 0..n {
            if i > 0 { doc.push(b','); doc.extend(wsp(r)); }
            if r.chance(1, 3) { doc.extend_from_slice(*r.pick(&[&b"\"a\""[..], b"\"b\"", b"\"\\u0061\"", b"\"\""])); } else { doc.extend_from_slice(&gen_string_text(r)); }
            doc.extend(wsp(r)); doc.push(b':'); doc.extend(wsp(r)); gen_doc_into(r, 2, &mut doc); doc.extend(wsp(r));
        }
        doc.push(b'}'); doc.extend(wsp(r)); doc
    }

    pub fn run_c19(sink: &mut Sink, thorough: bool, seed: u64) {
        let mut r = Rng::new(seed ^ 0x5eed_19);
        let cfg = cfg_tag();
        // serialising
        for t in ["1", "{\"a\" : [ ] }", "\"x\"", "[1, 2]"] {
            let raw = || RProg::Raw(RawValue::from_string(t.to_string()).unwrap());
            emit_ser(sink, &raw(), "corpus");
            emit_ser(sink, &RProg::Seq(Some(2), vec![raw(), raw()]), "corpus");
            emit_ser(sink, &RProg::Seq(None, vec![RProg::Leaf(Prog::Unit), raw()]), "corpus");
            emit_ser(sink, &RProg::Struct(vec![("a", raw()), ("b", RProg::Seq(None, vec![]))]), "corpus");
            emit_ser(sink, &RProg::Map(None, vec![(RProg::Leaf(Prog::Str("k".into())), raw())]), "corpus");
            emit_ser(sink, &RProg::Map(Some(1), vec![(raw(), raw())]), "corpus");
            emit_ser(sink, &RProg::NewtypeVariant("V", Box::new(raw())), "corpus");
            emit_ser(sink, &RProg::TupleVariant("V", vec![raw(), RProg::Some(Box::new(raw()))]), "corpus");
            emit_ser(sink, &RProg::StructVariant("V", vec![("a", RProg::Newtype(Box::new(raw())))]), "corpus");
        }
        for _ in 0..(if thorough { 6000 } else { 600 }) { let p = gen_rprog(&mut r, 3); emit_ser(sink, &p, "gen"); }
        // nested capture
        for s in ["[]", " [ ] ", "[1]", "[1,2]", " [ 1 , [2, 3] ,\n{\"a\":\"]\"} ] ", "[1,]", "[,1]", "[1 2]", "[1", "[1,", "[", "[\"\\ud800\",1e999,-0]", "[1]x", "1", "{}", "null",
                  "[[[[[[[[[[[[[[[[[[[[[[[[[[[[[[[[[[[[[[[[[[[[[[[[[[[[[[[[[[[[[[[[[[[[[[[[[[[[[[[[[[[[[[[[[[[[[[[[[[[[[[[[[[[[[[[[[[[[[[[[[[[[[[[[[[[[[[[[1]]]]]]]]]]]]]]]]]]]]]]]]]]]]]]]]]]]]]]]]]]]]]]]]]]]]]]]]]]]]]]]]]]]]]]]]]]]]]]]]]]]]]]]]]]]]]]]]]]]]]]]]]]]]]]]]]]]]]]]]]]]]]]]]]]]]]]]]]]]]"] {
            emit_nest(sink, &cfg, "arr", s.as_bytes(), &mut r, "corpus");
        }
        emit_nest(sink, &cfg, "arr", b"[\"\xff\", 1]", &mut r, "corpus");
        emit_nest(sink, &cfg, "arr", b"[1, \"\xff\"]x", &mut r, "corpus");
        emit_nest(sink, &cfg, "obj", b"{\"k\":\"\xff\"}", &mut r, "corpus");
        emit_nest(sink, &cfg, "obj", b"{\"\xff\":1}", &mut r, "corpus");
        for s in ["{}", " { } ", "{\"a\":1}", "{\"a\" : 1 , \"a\":[2]}", "{\"a\":1,}", "{,}", "{\"a\"}", "{\"a\":}", "{\"a\":1 \"b\":2}", "{\"a\":1", "{\"a\"", "{", "{1:2}", "{\"\\ud800\":1}",
                  "{\"a\\n\\u00e9\":{\"b\":[ ]}}", "[]", "1", "{\"a\":1}x"] {
            emit_nest(sink, &cfg, "obj", s.as_bytes(), &mut r, "corpus");
        }
        // exhaustive short token sequences, bare and wrapped
        let toks = tokens();
        for len in 1..=(if thorough { 3 } else { 2 }) {
            let mut inputs: Vec<Vec<u8>> = vec![];
            exhaustive(&toks, len, 0, 1, |b| inputs.push(b.to_vec()));
            for b in inputs {
                emit_nest(sink, &cfg, "arr", &b, &mut r, &format!("exh{}", len));
                let w = [&b"["[..], &b, b"]"].concat(); emit_nest(sink, &cfg, "arr", &w, &mut r, &format!("exhw{}", len));
                let w = [&b"[1,"[..], &b].concat(); emit_nest(sink, &cfg, "arr", &w, &mut r, &format!("exhw{}", len));
                if len < 3 || b.len() % 3 == 0 {
                    emit_nest(sink, &cfg, "obj", &b, &mut r, &format!("exh{}", len));
                    let w = [&b"{\"k\":"[..], &b, b"}"].concat(); emit_nest(sink, &cfg, "obj", &w, &mut r, &format!("exhw{}", len));
                    let w = [&b"{"[..], &b, b":1}"].concat(); emit_nest(sink, &cfg, "obj", &w, &mut r, &format!("exhw{}", len));
                }
            }
        }
        for _ in 0..(if thorough { 8000 } else { 800 }) {
            let a = gen_array(&mut r);
            emit_nest(sink, &cfg, "arr", &a, &mut r, "doc");
            for _ in 0..3 { let m = mutate(&a, &mut r); emit_nest(sink, &cfg, "arr", &m, &mut r, "mut"); }
            if r.chance(1, 4) { for k in 0..a.len() { emit_nest(sink, &cfg, "arr", &a[..k], &mut r, "prefix"); } }
            let o = gen_object(&mut r);
            emit_nest(sink, &cfg, "obj", &o, &mut r, "doc");
            for _ in 0..3 { let m = mutate(&o, &mut r); emit_nest(sink, &cfg, "obj", &m, &mut r, "mut"); }
            if r.chance(1, 4) { for k in 0..o.len() { emit_nest(sink, &cfg, "obj", &o[..k], &mut r, "prefix"); } }
        }
    }

    pub fn replay(sink: &mut Sink, toks: &[&str]) {
        match toks[0] {
            "rawser" if toks.len() >= 3 => {
                let p = dec_rprog(toks[2]);
                let fmt: Option<Vec<u8>> = if toks[1] == "c" { None } else { Some(unhex(&toks[1][1..])) };
                let o = obs(fmt.as_deref(), &p);
                sink.case("rawser", &[toks[1], toks[2]], &o, "replay", true);
            }
            "rawnest" if toks.len() >= 4 => {
                let b = unhex(toks[3]);
                let o = nest_obs(toks[2], &b, vec![1]);
                sink.case("rawnest", &[&cfg_tag(), toks[2], toks[3]], &o, "replay", true);
            }
            _ => eprintln!("cannot replay {:?}", toks),
        }
    }
}

pub fn replay(sink: &mut Sink, toks: &[&str]) {
    match toks[0] {
        #[cfg(feature = "rv")]
        "rawser" | "rawnest" => raw::replay(sink, toks),
        _ => eprintln!("cannot replay op {}", toks[0]),
    }
}
