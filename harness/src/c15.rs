//! C15: `serde_json::to_value` of arbitrary serializer programs (op `tov`) and the property's own statement on the
//! implementation (op `tovagree`): `to_value(p)` vs `to_string(p)` vs `from_str(to_string(widen(p)))`.
use crate::common::*;
use crate::obs::cfg_tag;
use crate::prog::*;
use serde_json::Value;
use std::panic::{catch_unwind, AssertUnwindSafe};

fn class(e: &serde_json::Error) -> String {
    let m = e.to_string();
    if m.starts_with("key must be a string") { "KeyMustBeAString".into() }
    else if m.starts_with("float key must be finite") { "FloatKeyMustBeFinite".into() }
    else if m.starts_with("number out of range") { "NumberOutOfRange".into() }
    else { format!("Other:{}", m.replace(' ', "_").replace('|', "/")) }
}
fn guard<F: FnOnce() -> String>(f: F) -> String { catch_unwind(AssertUnwindSafe(f)).unwrap_or_else(|_| "PANIC".into()) }

fn obs_tov(p: &Prog) -> String {
    guard(|| match serde_json::to_value(p) { Ok(v) => format!("OK:{}", enc(&v)), Err(e) => format!("ERR:{}", class(&e)) })
}
fn obs_tostring(p: &Prog) -> String {
    guard(|| match serde_json::to_string(p) { Ok(s) => format!("OK:{}", hexf(s.as_bytes())), Err(e) => format!("ERR:{}", class(&e)) })
}

/// every finite f32 in value position replaced by the f64 of the same value (map keys untouched); identity under `ap`,
/// where `Number::from_f32` keeps the f32 text
fn widen(p: &Prog) -> Prog {
    let w = |q: &Prog| widen(q);
    match p {
        Prog::F32(x) => if cfg!(feature = "ap") || !x.is_finite() { p.clone() } else { Prog::F64(*x as f64) },
        Prog::Some(q) => Prog::Some(Box::new(w(q))),
        Prog::NewtypeStruct(q) => Prog::NewtypeStruct(Box::new(w(q))),
        Prog::NewtypeVariant(n, q) => Prog::NewtypeVariant(n, Box::new(w(q))),
        Prog::Seq(h, xs) => Prog::Seq(*h, xs.iter().map(w).collect()),
        Prog::Tuple(xs) => Prog::Tuple(xs.iter().map(w).collect()),
        Prog::TupleStruct(xs) => Prog::TupleStruct(xs.iter().map(w).collect()),
        Prog::TupleVariant(n, xs) => Prog::TupleVariant(n, xs.iter().map(w).collect()),
        Prog::Map(h, es) => Prog::Map(*h, es.iter().map(|(k, v)| (k.clone(), w(v))).collect()),
        Prog::Struct(fs) => Prog::Struct(fs.iter().map(|(n, v)| (*n, w(v))).collect()),
        Prog::StructVariant(n, fs) => Prog::StructVariant(n, fs.iter().map(|(k, v)| (*k, w(v))).collect()),
        _ => p.clone(),
    }
}

/// value-position visitor (does not descend into map keys)
fn values<'a>(p: &'a Prog, f: &mut dyn FnMut(&'a Prog)) {
    f(p);
    match p {
        Prog::Some(q) | Prog::NewtypeStruct(q) | Prog::NewtypeVariant(_, q) => values(q, f),
        Prog::Seq(_, xs) | Prog::Tuple(xs) | Prog::TupleStruct(xs) | Prog::TupleVariant(_, xs) => for x in xs { values(x, f); },
        Prog::Map(_, es) => for (_, v) in es { values(v, f); },
        Prog::Struct(fs) | Prog::StructVariant(_, fs) => for (_, v) in fs { values(v, f); },
        _ => {}
    }
}

/// the literal, read as (integer significand) · 10^e, has a significand of at most 15 digits and |e| ≤ 22: then
/// `significand as f64` and `10^|e|` are exact and the single multiplication / division of the default
/// (non-float_roundtrip) parser is correctly rounded (C08's exact case)
fn short_literal(t: &str) -> bool {
    let t = t.trim_start_matches('-');
    let (mant, exp) = match t.find(|c| c == 'e' || c == 'E') { Some(i) => (&t[..i], t[i + 1..].parse::<i32>().unwrap_or(9999)), None => (t, 0) };
    let digits: String = mant.chars().filter(|c| c.is_ascii_digit()).collect();
    let frac_len = mant.find('.').map(|i| mant.len() - i - 1).unwrap_or(0) as i32;
    let sig_digits = digits.trim_start_matches('0').len();
    sig_digits <= 15 && (exp - frac_len).abs() <= 22
}

/// `1` when every finite f64 serialised as a value by the widened program prints as a short literal
fn short_flag(wp: &Prog) -> bool {
    let mut ok = true;
    values(wp, &mut |q| if let Prog::F64(x) = q { if x.is_finite() && !short_literal(&serde_json::to_string(x).unwrap_or_default()) { ok = false; } });
    ok
}

/// the text the crate prints for each widened f32: `hex16:hextext,…`
fn wtable(p: &Prog) -> String {
    if cfg!(feature = "ap") { return "-".into(); }
    let mut out: Vec<String> = vec![];
    values(p, &mut |q| if let Prog::F32(x) = q { if x.is_finite() {
        let w = *x as f64;
        let t = guard(|| serde_json::to_string(&w).unwrap_or_else(|_| "ERR".into()));
        let item = format!("{:016x}:{}", w.to_bits(), hex(t.as_bytes()));
        if !out.contains(&item) { out.push(item); }
    } });
    if out.is_empty() { "-".into() } else { out.join(",") }
}

fn obs_agree(p: &Prog, wp: &Prog) -> String {
    let a = obs_tov(p);
    let s = obs_tostring(p);
    let b = guard(|| match serde_json::to_string(wp) {
        Err(_) => "-".to_string(),
        Ok(t) => match serde_json::from_str::<Value>(&t) { Ok(v) => format!("OK:{}", enc(&v)), Err(_) => "PERR".into() },
    });
    format!("{}|{}|{}", a, s, b)
}

// ------------------------------------------------------------------ tags / non-triviality

fn has_some_key(p: &Prog) -> bool {
    fn key_is_some(k: &Prog) -> bool { match k { Prog::Some(_) => true, Prog::NewtypeStruct(q) => key_is_some(q), _ => false } }
    let mut r = false;
    values(p, &mut |q| if let Prog::Map(_, es) = q { if es.iter().any(|(k, _)| key_is_some(k)) { r = true; } });
    r
}
fn has_128_oor(p: &Prog) -> bool {
    let mut r = false;
    values(p, &mut |q| match q {
        Prog::Int(IntV::I128(x)) if *x < i64::MIN as i128 || *x > u64::MAX as i128 => r = true,
        Prog::Int(IntV::U128(x)) if *x > u64::MAX as u128 => r = true,
        _ => {}
    });
    r
}
/// non-trivial: the program has a map, struct or variant payload (an object is built), bytes, a float or a 128-bit integer
fn nontrivial(p: &Prog) -> bool {
    let mut r = false;
    values(p, &mut |q| match q {
        Prog::Map(..) | Prog::Struct(_) | Prog::StructVariant(..) | Prog::TupleVariant(..) | Prog::NewtypeVariant(..) | Prog::Bytes(_)
        | Prog::F32(_) | Prog::F64(_) | Prog::Int(IntV::I128(_)) | Prog::Int(IntV::U128(_)) => r = true,
        _ => {}
    });
    r
}
fn oclass(o: &str) -> &str {
    if o.starts_with("OK:") { "ok" } else if o.starts_with("ERR:Other:") { "other" } else if let Some(c) = o.strip_prefix("ERR:") { c } else { "panic" }
}

struct Case { e: String, short: bool, wt: String, nt: bool, wp: Prog, feat: String }
impl Case {
    fn new(p: &Prog) -> Case {
        let wp = widen(p);
        let mut f32s = false; let mut f64s = false;
        values(p, &mut |q| match q { Prog::F32(_) => f32s = true, Prog::F64(_) => f64s = true, _ => {} });
        let feat = format!("{}{}{}{}", if has_some_key(p) { "+somekey" } else { "" }, if has_128_oor(p) { "+oor128" } else { "" },
                           if f32s { "+f32" } else { "" }, if f64s { "+f64" } else { "" });
        Case { e: enc_prog(p), short: short_flag(&wp), wt: wtable(p), nt: nontrivial(p), wp, feat }
    }
    fn sh(&self) -> &'static str { if self.short { "1" } else { "0" } }
}

fn emit_tov(sink: &mut Sink, p: &Prog, c: &Case) {
    let o = obs_tov(p);
    sink.case("tov", &[&cfg_tag(), c.sh(), &c.e, &c.wt], &o, &format!("tov:{}:{}", p.ctor(), oclass(&o)), c.nt);
}
fn emit_agree(sink: &mut Sink, p: &Prog, c: &Case) {
    let o = obs_agree(p, &c.wp);
    let mut it = o.split('|');
    let (a, s) = (it.next().unwrap_or(""), it.next().unwrap_or(""));
    sink.case("tovagree", &[&cfg_tag(), c.sh(), &c.e, &c.wt], &o,
              &format!("agree:{}/{}{}{}", oclass(a), oclass(s), c.feat, if c.short { "" } else { "+long" }), c.nt);
}

pub fn replay(sink: &mut Sink, toks: &[&str]) {
    if toks.len() < 4 { return; }
    let p = dec_prog(toks[3]);
    let c = Case::new(&p);
    match toks[0] {
        "tov" => { let o = obs_tov(&p); sink.case("tov", &[&cfg_tag(), c.sh(), &c.e, &c.wt], &o, "replay", true) }
        "tovagree" => { let o = obs_agree(&p, &c.wp); sink.case("tovagree", &[&cfg_tag(), c.sh(), &c.e, &c.wt], &o, "replay", true) }
        _ => eprintln!("cannot replay {:?}", toks),
    }
}

// ------------------------------------------------------------------ fixed corpus

fn s(t: &str) -> Prog { Prog::Str(t.to_string()) }
fn i(n: i32) -> Prog { Prog::Int(IntV::I32(n)) }
fn bx(p: Prog) -> Box<Prog> { Box::new(p) }
fn seq(xs: Vec<Prog>) -> Prog { Prog::Seq(None, xs) }
fn map(es: Vec<(Prog, Prog)>) -> Prog { Prog::Map(None, es) }

fn boundary_ints() -> Vec<IntV> {
    let mut v = vec![];
    for d in [-2i128, -1, 0, 1, 2] {
        v.push(IntV::I128(u64::MAX as i128 + d));
        v.push(IntV::I128(i64::MIN as i128 + d));
        v.push(IntV::I128(i64::MAX as i128 + d));
        v.push(IntV::I128(d));
        if d >= 0 { v.push(IntV::U128(d as u128)); }
        v.push(IntV::U128((u64::MAX as i128 + d) as u128));
        v.push(IntV::U128((i64::MAX as i128 + d) as u128));
    }
    v.extend([IntV::I128(i128::MIN), IntV::I128(i128::MAX), IntV::I128(i128::MIN + 1), IntV::U128(u128::MAX), IntV::U128(u128::MAX - 1),
              IntV::U128(1u128 << 64), IntV::U128(1u128 << 100), IntV::I128(-(1i128 << 64)), IntV::I128(1i128 << 64), IntV::I128(-(1i128 << 63)),
              IntV::I128(-(1i128 << 63) - 1), IntV::I128((1i128 << 63) - 1), IntV::I128(1i128 << 63)]);
    v.extend([IntV::I8(i8::MIN), IntV::I8(-1), IntV::I8(0), IntV::I8(i8::MAX), IntV::I16(i16::MIN), IntV::I16(i16::MAX), IntV::I32(i32::MIN),
              IntV::I32(i32::MAX), IntV::I64(i64::MIN), IntV::I64(-1), IntV::I64(0), IntV::I64(i64::MAX), IntV::U8(0), IntV::U8(u8::MAX),
              IntV::U16(u16::MAX), IntV::U32(u32::MAX), IntV::U64(0), IntV::U64(i64::MAX as u64), IntV::U64(i64::MAX as u64 + 1), IntV::U64(u64::MAX)]);
    v
}

fn f32_specials() -> Vec<f32> {
    vec![0.0, -0.0, 1.0, 1.5, -2.5, 0.1, 0.2, 0.3, 1e-7, 1e21, 3.4e38, 16777216.0, 16777217.0, 123456.79, 4.35, 1.0e-10, 7.0e-45,
         f32::MAX, f32::MIN, f32::MIN_POSITIVE, f32::MIN_POSITIVE / 2.0, f32::from_bits(1), f32::from_bits(2), f32::from_bits(0x007f_ffff),
         f32::from_bits(0x8000_0001), f32::from_bits(0x0040_0000), f32::from_bits(0x0000_0003), f32::EPSILON, 0.5, 255.0, 1e10, 1e15, 1e16]
}
fn f64_specials() -> Vec<f64> {
    vec![0.0, -0.0, 1.0, 1.5, -2.5, 0.1, 0.2, 0.3, 1e-7, 1e21, 1e22, 1e23, 1e-22, 1e-23, 123456789012345.0, 1234567890123456.0, 0.1 + 0.2,
         1e300, 1e-300, 5e-324, f64::MAX, f64::MIN, f64::MIN_POSITIVE, f64::MIN_POSITIVE / 2.0, 9007199254740993.0, 4.35, 1e15, 1e16,
         18446744073709551615.0, 9223372036854775808.0, -9223372036854775808.0, 2.5e-8, 0.30000000000000004, 1.7976931348623157e308]
}

fn corpus() -> Vec<Prog> {
    let mut c: Vec<Prog> = vec![];
    // every constructor alone
    c.push(Prog::Bool(false)); c.push(Prog::Bool(true));
    for v in boundary_ints() { c.push(Prog::Int(v.clone())); c.push(seq(vec![Prog::Int(v.clone()), i(1)])); c.push(map(vec![(s("k"), Prog::Int(v))])); }
    for x in f32_specials() { c.push(Prog::F32(x)); c.push(Prog::Some(bx(Prog::F32(x)))); c.push(Prog::Struct(vec![("a", Prog::F32(x))])); }
    for x in nonfinite_f32() { c.push(Prog::F32(x)); c.push(seq(vec![Prog::F32(x)])); }
    for x in f64_specials() { c.push(Prog::F64(x)); c.push(Prog::NewtypeVariant("V", bx(Prog::F64(x)))); }
    for x in nonfinite_f64() { c.push(Prog::F64(x)); c.push(map(vec![(s("a"), Prog::F64(x))])); }
    for ch in CHARS { c.push(Prog::Char(*ch)); }
    for t in FIXED_STRS { c.push(s(t)); c.push(Prog::CollectStr(t.to_string())); }
    c.push(s("")); c.push(Prog::Bytes(vec![])); c.push(Prog::Bytes(vec![0, 255, 7, 128]));
    c.push(Prog::None); c.push(Prog::Some(bx(i(1)))); c.push(Prog::Some(bx(Prog::None))); c.push(Prog::Unit); c.push(Prog::UnitStruct);
    for n in NAMES {
        c.push(Prog::UnitVariant(n)); c.push(Prog::NewtypeVariant(n, bx(Prog::Unit))); c.push(Prog::TupleVariant(n, vec![i(1), s("x")]));
        c.push(Prog::StructVariant(n, vec![(*n, Prog::Unit), ("a", i(1))])); c.push(Prog::TupleVariant(n, vec![])); c.push(Prog::StructVariant(n, vec![]));
    }
    c.push(Prog::NewtypeStruct(bx(i(1)))); c.push(Prog::NewtypeStruct(bx(map(vec![(s("a"), Prog::Unit)]))));
    c.push(Prog::Seq(None, vec![])); c.push(Prog::Seq(Some(0), vec![])); c.push(Prog::Seq(Some(2), vec![i(1), i(2)]));
    c.push(Prog::Tuple(vec![])); c.push(Prog::Tuple(vec![i(1), s("x")])); c.push(Prog::TupleStruct(vec![])); c.push(Prog::TupleStruct(vec![i(1), i(2)]));
    c.push(Prog::Map(None, vec![])); c.push(Prog::Map(Some(0), vec![])); c.push(Prog::Struct(vec![]));
    // insertion order vs sorted order, duplicates (last wins; position of the first occurrence kept under preserve_order)
    c.push(map(vec![(s("b"), i(1)), (s("a"), i(2)), (s("c"), i(3))]));
    c.push(map(vec![(s("b"), i(1)), (s("a"), i(2)), (s("b"), i(3))]));
    c.push(map(vec![(s("a"), i(1)), (s("a"), i(2)), (s("a"), seq(vec![]))]));
    c.push(map(vec![(s("z"), i(1)), (s(""), i(2)), (s("é"), i(3)), (s("a\u{0}"), i(4)), (s("a"), i(5)), (s("Z"), i(6)), (s("\u{10348}"), i(7)), (s("\u{ffff}"), i(8))]));
    c.push(Prog::Struct(vec![("b", i(1)), ("a", i(2)), ("b", i(3))]));
    c.push(Prog::Struct(NAMES.iter().rev().map(|n| (*n, Prog::Unit)).collect()));
    c.push(Prog::StructVariant("V", vec![("b", i(1)), ("a", i(2)), ("b", i(3)), ("", i(4))]));
    // keys of different kinds with the same text collapse into one entry
    c.push(map(vec![(i(1), s("int")), (s("1"), s("str")), (Prog::Char('1'), s("char")), (Prog::CollectStr("1".into()), s("display")), (Prog::Int(IntV::U128(1)), s("u128"))]));
    c.push(map(vec![(Prog::Bool(true), i(1)), (s("true"), i(2)), (Prog::Bool(false), i(3)), (Prog::UnitVariant("a"), i(4)), (s("a"), i(5)), (Prog::Char('a'), i(6))]));
    c.push(map(vec![(Prog::F64(1.5), i(1)), (Prog::F32(1.5), i(2)), (s("1.5"), i(3)), (Prog::F64(1.0), i(4)), (Prog::Int(IntV::U8(1)), i(5)), (Prog::F32(0.1), i(6)), (Prog::F64(0.1), i(7))]));
    // one map per key kind
    let valid: Vec<Prog> = vec![
        s(""), s("a"), s("a\"b\n"), Prog::Char('c'), Prog::Char('"'), Prog::Char('\u{0}'), Prog::Char('\u{10348}'), Prog::UnitVariant("V"), Prog::UnitVariant("a\"b"),
        Prog::CollectStr("k".into()), Prog::CollectStr("line\nbreak".into()), Prog::Bool(true), Prog::Bool(false),
        Prog::Int(IntV::I8(-8)), Prog::Int(IntV::I16(-16)), Prog::Int(IntV::I32(-32)), Prog::Int(IntV::I64(i64::MIN)), Prog::Int(IntV::I128(i128::MIN)), Prog::Int(IntV::I128(i128::MAX)),
        Prog::Int(IntV::U8(8)), Prog::Int(IntV::U16(16)), Prog::Int(IntV::U32(32)), Prog::Int(IntV::U64(u64::MAX)), Prog::Int(IntV::U128(u128::MAX)),
        Prog::Int(IntV::U128(u64::MAX as u128 + 1)), Prog::Int(IntV::I128(i64::MIN as i128 - 1)),
        Prog::F32(1.5), Prog::F32(0.1), Prog::F32(-0.0), Prog::F32(f32::MAX), Prog::F32(f32::from_bits(1)), Prog::F64(1.5), Prog::F64(-0.0), Prog::F64(1e300), Prog::F64(0.1),
        Prog::F64(f64::from_bits(1)), Prog::NewtypeStruct(bx(s("k"))), Prog::NewtypeStruct(bx(Prog::Bool(true))), Prog::NewtypeStruct(bx(Prog::NewtypeStruct(bx(Prog::F32(2.5))))),
        Prog::NewtypeStruct(bx(Prog::Int(IntV::I128(-5)))), Prog::NewtypeStruct(bx(Prog::UnitVariant("V"))), Prog::NewtypeStruct(bx(Prog::Char('x'))),
    ];
    // Option keys: accepted by the text serializer, rejected by value::ser::MapKeySerializer (pinned-tree deviation)
    let some_keys: Vec<Prog> = vec![
        Prog::Some(bx(s("k"))), Prog::Some(bx(i(1))), Prog::Some(bx(Prog::Bool(true))), Prog::Some(bx(Prog::F64(2.5))), Prog::Some(bx(Prog::Char('c'))),
        Prog::Some(bx(Prog::UnitVariant("V"))), Prog::Some(bx(Prog::Some(bx(s("k"))))), Prog::Some(bx(Prog::NewtypeStruct(bx(Prog::Some(bx(s("k"))))))),
        Prog::NewtypeStruct(bx(Prog::Some(bx(s("k"))))), Prog::Some(bx(Prog::CollectStr("k".into()))), Prog::Some(bx(Prog::Int(IntV::U128(u128::MAX)))),
    ];
    let invalid: Vec<Prog> = vec![
        seq(vec![]), seq(vec![i(1)]), map(vec![]), map(vec![(s("a"), i(1))]), Prog::Tuple(vec![]), Prog::Tuple(vec![i(1)]), Prog::TupleStruct(vec![]),
        Prog::Unit, Prog::UnitStruct, Prog::None, Prog::Bytes(vec![]), Prog::Bytes(vec![97]), Prog::NewtypeVariant("V", bx(s("k"))),
        Prog::Struct(vec![]), Prog::Struct(vec![("a", i(1))]), Prog::TupleVariant("V", vec![]), Prog::StructVariant("V", vec![]),
        Prog::F32(f32::NAN), Prog::F32(f32::INFINITY), Prog::F32(f32::NEG_INFINITY), Prog::F64(f64::NAN), Prog::F64(f64::from_bits(0xfff8_0000_0000_0000)),
        Prog::F64(f64::INFINITY), Prog::F64(f64::NEG_INFINITY), Prog::NewtypeStruct(bx(Prog::Unit)), Prog::NewtypeStruct(bx(Prog::F64(f64::NAN))),
        Prog::NewtypeStruct(bx(seq(vec![]))), Prog::NewtypeStruct(bx(Prog::None)),
        // Some(_) around an invalid key: both reject (possibly with different classes)
        Prog::Some(bx(Prog::None)), Prog::Some(bx(Prog::Unit)), Prog::Some(bx(seq(vec![]))), Prog::Some(bx(Prog::F64(f64::NAN))),
        Prog::Some(bx(Prog::NewtypeStruct(bx(Prog::F32(f32::INFINITY))))),
    ];
    for k in valid.iter().chain(some_keys.iter()).chain(invalid.iter()) {
        c.push(map(vec![(k.clone(), i(1))]));
        c.push(Prog::Map(Some(2), vec![(s("z"), seq(vec![])), (k.clone(), map(vec![]))]));
        c.push(seq(vec![i(0), Prog::NewtypeVariant("V", bx(map(vec![(k.clone(), Prog::F32(0.1))])))]));
    }
    // order of failures: key errors of two classes, a 128-bit overflow before / after / inside
    let big = Prog::Int(IntV::U128(u128::MAX));
    c.push(map(vec![(Prog::Unit, i(1)), (s("a"), i(2))]));
    c.push(map(vec![(s("a"), i(1)), (Prog::Unit, i(2))]));
    c.push(map(vec![(Prog::F64(f64::NAN), i(1)), (Prog::Unit, i(2))]));
    c.push(map(vec![(Prog::Unit, i(1)), (Prog::F64(f64::NAN), i(2))]));
    c.push(seq(vec![big.clone(), map(vec![(Prog::Unit, i(1))])]));
    c.push(seq(vec![map(vec![(Prog::Unit, i(1))]), big.clone()]));
    c.push(map(vec![(s("a"), big.clone()), (Prog::F32(f32::NAN), i(1))]));
    c.push(map(vec![(Prog::F32(f32::NAN), big.clone())]));
    c.push(map(vec![(big.clone(), big.clone())]));
    c.push(map(vec![(big.clone(), i(1))]));
    c.push(Prog::StructVariant("V", vec![("a", map(vec![(Prog::F64(f64::INFINITY), i(1))])), ("b", big.clone())]));
    c.push(Prog::TupleVariant("V", vec![i(1), big.clone()]));
    c.push(Prog::Struct(vec![("a", Prog::Some(bx(Prog::NewtypeStruct(bx(big.clone())))))]));
    c.push(map(vec![(Prog::Some(bx(s("k"))), big.clone())]));
    // nesting of the four variant kinds and the transparent wrappers
    c.push(Prog::NewtypeVariant("V", bx(Prog::NewtypeVariant("a", bx(Prog::TupleVariant("b", vec![Prog::StructVariant("key", vec![("a", Prog::UnitVariant("V"))])]))))));
    c.push(seq(vec![Prog::Some(bx(seq(vec![]))), Prog::None, Prog::NewtypeStruct(bx(map(vec![(s("a"), Prog::Unit)]))), Prog::Bytes(vec![1, 2])]));
    c.push(map((0..12).map(|k| (i(11 - k), seq(vec![i(k)]))).collect()));
    c.push(map((0..12).map(|k| (i(k % 4), i(k))).collect()));
    c
}

/// maps whose keys collide across kinds and repeat (exercises Map::insert replacement and ordering)
fn gen_collide(r: &mut Rng, depth: usize) -> Prog {
    const POOL: &[&str] = &["", "0", "1", "10", "2", "true", "false", "a", "b", "ab", "A", "é", "1.5", "-1", "null", "\u{0}", "a\"b"];
    let n = 2 + r.below(7);
    let es = (0..n).map(|_| {
        let t = *r.pick(POOL);
        let k = match r.below(8) {
            0 | 1 | 2 => s(t),
            3 => Prog::CollectStr(t.to_string()),
            4 => Prog::UnitVariant(*r.pick(NAMES)),
            5 => if let Ok(v) = t.parse::<i64>() { Prog::Int(if r.chance(1, 2) { IntV::I64(v) } else { IntV::I128(v as i128) }) } else { Prog::Bool(t == "true") },
            6 => if t.chars().count() == 1 { Prog::Char(t.chars().next().unwrap()) } else { Prog::F64(1.5) },
            _ => Prog::NewtypeStruct(bx(s(t))),
        };
        let v = if depth > 0 && r.chance(1, 3) { gen_collide(r, depth - 1) } else { gen_prog(r, depth.min(2)) };
        (k, v)
    }).collect::<Vec<_>>();
    let h = if r.chance(1, 2) { None } else { Some(es.len()) };
    Prog::Map(h, es)
}

/// programs made of numbers: boundary integers of every width, f32 / f64 of every class, in the containers
fn gen_numeric(r: &mut Rng) -> Prog {
    let leaf = |r: &mut Rng| match r.below(6) {
        0 => Prog::Int(r.pick(&boundary_ints()).clone()),
        1 => Prog::Int(gen_int(r)),
        2 => Prog::F32(if r.chance(1, 2) { *r.pick(&f32_specials()) } else { gen_f32(r) }),
        3 => Prog::F64(if r.chance(1, 2) { *r.pick(&f64_specials()) } else { gen_f64(r) }),
        4 => { let x = (r.below(2_000_000_000) as f64) / [1.0, 10.0, 100.0, 1000.0, 1e6][r.below(5)]; Prog::F64(if r.chance(1, 3) { -x } else { x }) }
        _ => { let x = (r.below(100_000) as f32) / [1.0, 2.0, 4.0, 8.0, 10.0][r.below(5)]; Prog::F32(x) }
    };
    match r.below(6) {
        0 => leaf(r),
        1 => seq((0..1 + r.below(4)).map(|_| leaf(r)).collect()),
        2 => Prog::Struct((0..1 + r.below(3)).map(|_| (gen_name(r), leaf(r))).collect()),
        3 => map((0..1 + r.below(3)).map(|_| (leaf(r), leaf(r))).collect()),
        4 => Prog::TupleVariant(gen_name(r), (0..r.below(3)).map(|_| leaf(r)).collect()),
        _ => Prog::Some(bx(Prog::NewtypeStruct(bx(leaf(r))))),
    }
}

/// `Some(_)` wrappers removed from every map key (value positions untouched)
fn strip_some_keys(p: &Prog) -> Prog {
    fn key(k: &Prog) -> Prog { match k { Prog::Some(q) => key(q), Prog::NewtypeStruct(q) => Prog::NewtypeStruct(Box::new(key(q))), _ => k.clone() } }
    let w = |q: &Prog| strip_some_keys(q);
    match p {
        Prog::Some(q) => Prog::Some(Box::new(w(q))),
        Prog::NewtypeStruct(q) => Prog::NewtypeStruct(Box::new(w(q))),
        Prog::NewtypeVariant(n, q) => Prog::NewtypeVariant(n, Box::new(w(q))),
        Prog::Seq(h, xs) => Prog::Seq(*h, xs.iter().map(w).collect()),
        Prog::Tuple(xs) => Prog::Tuple(xs.iter().map(w).collect()),
        Prog::TupleStruct(xs) => Prog::TupleStruct(xs.iter().map(w).collect()),
        Prog::TupleVariant(n, xs) => Prog::TupleVariant(n, xs.iter().map(w).collect()),
        Prog::Map(h, es) => Prog::Map(*h, es.iter().map(|(k, v)| (key(k), w(v))).collect()),
        Prog::Struct(fs) => Prog::Struct(fs.iter().map(|(n, v)| (*n, w(v))).collect()),
        Prog::StructVariant(n, fs) => Prog::StructVariant(n, fs.iter().map(|(k, v)| (*k, w(v))).collect()),
        _ => p.clone(),
    }
}

/// Known finding C15-some-key (open): every program with an `Option` key is a spec failure on the pinned tree, and the
/// driver prints at most 200 failures per run. To keep other violations visible, only one in `SOME_KEY_KEEP` (quick; thorough:
/// `SOME_KEY_KEEP_THOROUGH`) of the random programs that have such a key is run as generated; in the others the `Some` wrappers
/// are removed from the keys (the inner key kinds are still exercised). The fixed corpus always contains every `Some(_)` key
/// shape (100 failing cases). Set both to 1 once `value::ser::MapKeySerializer::serialize_some` forwards.
const SOME_KEY_KEEP: u64 = 1;
const SOME_KEY_KEEP_THOROUGH: u64 = 1;

pub fn run(sink: &mut Sink, thorough: bool, seed: u64) {
    let mut r = Rng::new(seed ^ 0xc15c_15c1);
    for p in corpus() {
        let c = Case::new(&p);
        emit_tov(sink, &p, &c);
        emit_agree(sink, &p, &c);
    }
    let n = if thorough { 60000 } else { 6000 };
    for k in 0..n {
        let p = match k % 6 {
            0 => gen_collide(&mut r, 2),
            1 => gen_numeric(&mut r),
            _ => { let d = r.below(5); gen_prog(&mut r, d) }
        };
        let p = if has_some_key(&p) && !r.chance(1, if thorough { SOME_KEY_KEEP_THOROUGH } else { SOME_KEY_KEEP }) { strip_some_keys(&p) } else { p };
        let c = Case::new(&p);
        emit_tov(sink, &p, &c);
        emit_agree(sink, &p, &c);
    }
}
