//! C08: default (non-float_roundtrip) number -> f64 / f32, against the exact-IEEE Lean model and the
//! exact-rational specification (exactness domain, sign/finite, 5 ulp, overflow direction, f32 once).
//!
//! Lines:
//!   f64lit <hex literal> => B<16 hex bits> | E | X…      from_str / from_slice / from_reader / Value::as_f64
//!   f32lit <hex literal> <f64 observation> => B<8 hex bits> | E | X…
use crate::common::*;
use serde_json::Value;

fn obs_err(e: &serde_json::Error) -> String {
    let m = e.to_string();
    if e.is_syntax() && m.starts_with("number out of range") { "E".into() }
    else { format!("X{}", m.split(" at ").next().unwrap_or("").replace(' ', "_")) }
}

fn obs64(r: std::thread::Result<Result<f64, serde_json::Error>>) -> String {
    match r { Ok(Ok(f)) => format!("B{:016x}", f.to_bits()), Ok(Err(e)) => obs_err(&e), Err(_) => "Xpanic".into() }
}
fn guard<T>(f: impl FnOnce() -> T + std::panic::UnwindSafe) -> std::thread::Result<T> { std::panic::catch_unwind(f) }

/// all four routes to an f64 must agree; otherwise the observation names each of them
fn observe_f64(lit: &str) -> String {
    let a = obs64(guard(|| serde_json::from_str::<f64>(lit)));
    let b = obs64(guard(|| serde_json::from_slice::<f64>(lit.as_bytes())));
    let c = obs64(guard(|| serde_json::from_reader::<_, f64>(lit.as_bytes())));
    let d = match guard(|| serde_json::from_str::<Value>(lit)) {
        Ok(Ok(v)) => match v.as_f64() { Some(f) => format!("B{:016x}", f.to_bits()), None => "Xnot-a-number".into() },
        Ok(Err(e)) => obs_err(&e),
        Err(_) => "Xpanic".into(),
    };
    if a == b && b == c && c == d { a } else { format!("MIXED:str={},slice={},reader={},value={}", a, b, c, d) }
}

fn observe_f32(lit: &str) -> String {
    let o = |r: std::thread::Result<Result<f32, serde_json::Error>>| match r {
        Ok(Ok(f)) => format!("B{:08x}", f.to_bits()), Ok(Err(e)) => obs_err(&e), Err(_) => "Xpanic".into() };
    let a = o(guard(|| serde_json::from_str::<f32>(lit)));
    let b = o(guard(|| serde_json::from_slice::<f32>(lit.as_bytes())));
    let c = o(guard(|| serde_json::from_reader::<_, f32>(lit.as_bytes())));
    if a == b && b == c { a } else { format!("MIXED:str={},slice={},reader={}", a, b, c) }
}

/// coarse class of a literal, for the distribution histogram only
fn class_of(lit: &str) -> &'static str {
    let s = lit.strip_prefix('-').unwrap_or(lit);
    let (mant, exp) = match s.find(|c| c == 'e' || c == 'E') { Some(i) => (&s[..i], Some(&s[i + 1..])), None => (s, None) };
    let (int, frac) = match mant.find('.') { Some(i) => (&mant[..i], &mant[i + 1..]), None => (mant, "") };
    let digits: String = format!("{}{}", int, frac);
    let sig = digits.trim_start_matches('0');
    if exp.is_none() && frac.is_empty() && digits.len() <= 19 { return "int"; }
    let e: i64 = match exp { None => 0, Some(x) => match x.parse::<i64>() { Ok(v) => v, Err(_) => return "expovf" } };
    if e > i32::MAX as i64 || e < -(i32::MAX as i64) { return "expovf"; }
    let net = e - frac.len() as i64;
    let dropped = if sig.len() > 19 { (sig.len() - 19) as i64 } else { 0 };
    let pe = net + dropped;
    if sig.len() <= 15 && net.abs() <= 22 { "exact15x22" }
    else if pe.abs() <= 308 { if sig.len() <= 19 { "short-e308" } else { "long-e308" } }
    else if pe < 0 { "below-308" } else { "above308" }
}

fn emit(sink: &mut Sink, lit: &str, gen: &str) {
    let h = hexf(lit.as_bytes());
    let o = observe_f64(lit);
    let cls = class_of(lit);
    let res = if o.starts_with('B') { "ok" } else if o == "E" { "range" } else { "other" };
    let nt = cls != "int";
    sink.case("f64lit", &[&h], &o, &format!("{}:{}:{}", gen, cls, res), nt);
    let o32 = observe_f32(lit);
    sink.case("f32lit", &[&h, &o], &o32, &format!("f32:{}:{}", cls, if o32.starts_with('B') { "ok" } else { "range" }), nt);
}

pub fn replay(sink: &mut Sink, toks: &[&str]) {
    if toks.len() < 2 { return; }
    let lit = String::from_utf8(unhex(toks[1])).unwrap_or_default();
    match toks[0] {
        "f64lit" => { let o = observe_f64(&lit); sink.case("f64lit", &[toks[1]], &o, "replay", true) }
        _ => { let o = observe_f64(&lit); let o32 = observe_f32(&lit); sink.case("f32lit", &[toks[1], &o], &o32, "replay", true) }
    }
}

fn digits(r: &mut Rng, n: usize, first_nonzero: bool) -> String {
    let mut s = String::with_capacity(n);
    for i in 0..n {
        let d = if i == 0 && first_nonzero { 1 + r.below(9) } else {
            // bias towards 0 and 9 runs
            match r.below(8) { 0 => 0, 1 => 9, _ => r.below(10) }
        };
        s.push((b'0' + d as u8) as char);
    }
    s
}

/// every spelling of `mant × 10^exp10` (mant: digit string without leading zeros unless "0")
fn spellings(r: &mut Rng, mant: &str, exp10: i64, out: &mut Vec<String>) {
    let n = mant.len() as i64;
    let ech = |r: &mut Rng| if r.chance(1, 2) { 'e' } else { 'E' };
    let esign = |r: &mut Rng, e: i64| -> String {
        if e < 0 { format!("-{}", -e) } else { match r.below(3) { 0 => format!("+{}", e), 1 => format!("{}", e), _ => format!("0{}", e) } }
    };
    // integer part only
    out.push(format!("{}{}{}", mant, ech(r), esign(r, exp10)));
    // fraction only: 0.<zeros><mant>
    let z = r.below(4) as i64;
    out.push(format!("0.{}{}{}{}", "0".repeat(z as usize), mant, ech(r), esign(r, exp10 + n + z)));
    // split somewhere
    if n > 1 {
        let k = 1 + r.below((n - 1) as usize) as i64;
        out.push(format!("{}.{}{}{}", &mant[..k as usize], &mant[k as usize..], ech(r), esign(r, exp10 + (n - k))));
    }
    // trailing zeros in the fraction / in the integer part
    let t = 1 + r.below(6) as i64;
    out.push(format!("{}.{}{}{}", mant, "0".repeat(t as usize), ech(r), esign(r, exp10)));
    out.push(format!("{}{}{}{}", mant, "0".repeat(t as usize), ech(r), esign(r, exp10 - t)));
    // no exponent part at all when that is short enough
    if exp10 >= 0 && exp10 <= 330 { out.push(format!("{}{}", mant, "0".repeat(exp10 as usize))); }
    if exp10 < 0 && -exp10 <= 345 {
        let e = (-exp10) as usize;
        if e < mant.len() { out.push(format!("{}.{}", &mant[..mant.len() - e], &mant[mant.len() - e..])); }
        else { out.push(format!("0.{}{}", "0".repeat(e - mant.len()), mant)); }
    }
}

fn emit_spellings(sink: &mut Sink, r: &mut Rng, mant: &str, exp10: i64, gen: &str, all: bool) {
    let mut v = vec![];
    spellings(r, mant, exp10, &mut v);
    if !all { let k = r.below(v.len()); let one = v.swap_remove(k); v.clear(); v.push(one); }
    for s in v {
        let neg = r.chance(1, 4);
        let lit = if neg { format!("-{}", s) } else { s };
        emit(sink, &lit, gen);
    }
}

pub fn run(sink: &mut Sink, thorough: bool, seed: u64) {
    let mut r = Rng::new(seed);
    let scale = if thorough { 24 } else { 3 };

    // ---- fixed corpus
    for lit in ["0", "-0", "-0.0", "0.0", "0e5", "-0e5", "0E-5", "0.000e+0", "1", "-1", "1.0", "1e0", "1E+0", "1e-0",
                "0e99999999999", "-0e99999999999", "0e-99999999999", "0.0e99999999999", "1e99999999999", "-1e99999999999",
                "1e-99999999999", "-1e-99999999999", "0.1e99999999999", "10e-99999999999",
                "1e2147483647", "1e2147483648", "1e-2147483647", "1e-2147483648", "1e-2147483649", "0e2147483648",
                "1.5e2147483647", "0.00001e-2147483647", "0.00001e-2147483648", "0.00001e2147483647", "100000e2147483647",
                "123456789012345678901234567890e2147483647", "123456789012345678901234567890e-2147483647",
                "1e0000000000000000000000000000005", "1e-0000000000000000000000000000005", "1e+0000000000000000000002147483647",
                "18446744073709551615", "18446744073709551616", "18446744073709551617", "18446744073709551615.0", "18446744073709551616.5",
                "18446744073709551619.1", "1844674407370955161", "18446744073709551610", "18446744073709551609", "1844674407370955161.5",
                "1844674407370955161.6", "1844674407370955161.59", "1844674407370955161.60", "184467440737095516150", "184467440737095516160",
                "-9223372036854775807", "-9223372036854775808", "-9223372036854775809", "9223372036854775807", "9223372036854775808",
                "-18446744073709551615", "-18446744073709551616", "9007199254740992", "9007199254740993", "9007199254740993.0", "-9007199254740993",
                "1152921573326323713", "-1152921573326323713", "1152921573326323713.0", "1152921573326323713e0", "16777217", "16777217.0", "-16777217",
                "9223372583999725569", "-9223372583999725569",
                "1e308", "1e309", "1e-308", "1e-323", "1e-324", "1e-325", "1e22", "1e23", "1e-22", "1e-23",
                "1.7976931348623157e308", "1.7976931348623158e308", "1.7976931348623159e308", "17976931348623157e292", "17976931348623158e292",
                "179769313486231570e291", "179769313486231580e291", "179769313486231590e291", "179769313486231591e291", "179769313486231599e291",
                "179769313486231600e291", "1797693134862315807e290", "1797693134862315907e290", "1797693134862315908e290", "17976931348623159077e289",
                "17976931348623159078e289", "0.17976931348623159078e309", "179769313486231590772930519078902473361797697894230657273430081157732675805500963132708477322407536021120113879871393357658789768814416622492847430639474124377767893657175190134438506484331767071234467534681799073697598519279530781e77",
                "2.2250738585072014e-308", "2.2250738585072011e-308", "2.2250738585072009e-308", "22250738585072014e-324", "2.225073858507201e-308",
                "5e-324", "4.9406564584124654e-324", "4.9e-324", "2.5e-324", "2.4703282292062327e-324", "2.4703282292062328e-324", "2.4703282292062329e-324",
                "2.47e-324", "2.48e-324", "3e-324", "7.4e-324", "7.5e-324", "24703282292062327e-340", "24703282292062328e-340", "1.0e-330", "1e-400", "9.9e-324",
                "0.000000000000000000000000000001", "1234567890.0987654321", "3.141592653589793", "2.718281828459045e0", "0.1", "0.2", "0.3", "123456789012345e22",
                "123456789012345e-22", "1234567890123456e22", "123456789012345e23", "999999999999999e22", "999999999999999e-22", "1000000000000000e22",
                "8.41e21", "8.5e-5", "9007199254740993e-1", "9007199254740993e1"] {
        emit(sink, lit, "fixed");
    }

    // ---- zero significands and deep underflows with every sign and a dense set of exponents:
    //      the paths of f64_from_parts that leave the POW10 table (|exponent| > 308) must keep the sign
    for e in [-2147483647i64, -100000, -1000, -925, -700, -650, -640, -620, -400, -325, -324, -310, -309, -308, -307, -1, 0, 1, 307, 308, 309, 310, 400, 1000, 2147483647] {
        for m in ["0", "0.0", "0.000", "1", "1.5", "12345678901234567890", "0.00001"] {
            for sign in ["", "-"] { emit(sink, &format!("{}{}e{}", sign, m, e), "zero-underflow"); }
        }
    }

    // ---- every power of ten 1e-400 .. 1e400, every spelling
    for e in -400i64..=400 {
        emit_spellings(sink, &mut r, "1", e, "pow10", true);
        emit(sink, &format!("1e{}", e), "pow10");
    }

    // ---- random mantissas of 1..40 digits × exponents in ±400, every spelling
    for _ in 0..(3000 * scale) {
        let n = 1 + r.below(40);
        let m = digits(&mut r, n, true);
        let e = r.below(801) as i64 - 400;
        // choose exp10 so that the *value* exponent sweeps ±400, not only the written one
        let exp10 = if r.chance(1, 2) { e } else { e - n as i64 };
        emit_spellings(sink, &mut r, &m, exp10, "random", true);
    }

    // ---- shortest / display representations of f64 across all binary exponents
    let per = if thorough { 40 } else { 8 };
    for ef in 0u64..=2046 {
        for k in 0..per {
            let mant = match k { 0 => 0, 1 => (1u64 << 52) - 1, _ => r.next() & ((1u64 << 52) - 1) };
            let f = f64::from_bits((ef << 52) | mant);
            let neg = r.chance(1, 4);
            let f = if neg { -f } else { f };
            emit(sink, &format!("{:e}", f), "shortest");
            if k < 2 || r.chance(1, 4) {
                let d = format!("{}", f);
                // Display never prints an exponent; make sure it is a JSON number (has digits around '.')
                if d.len() < 400 { emit(sink, &d, "display"); }
            }
        }
    }

    // ---- the 15-digit / exponent-22 exactness frontier, densely
    for nd in [1usize, 2, 8, 14, 15, 16, 17] {
        for e in -25i64..=25 {
            let reps = if nd >= 14 { 6 * scale } else { 2 * scale };
            for _ in 0..reps {
                let m = match r.below(6) {
                    0 => "9".repeat(nd),
                    1 => format!("1{}", "0".repeat(nd - 1)),
                    2 if nd == 16 => ["9007199254740992", "9007199254740993", "9007199254740991", "1000000000000001"][r.below(4)].to_string(),
                    _ => digits(&mut r, nd, true),
                };
                emit_spellings(sink, &mut r, &m, e, "frontier", true);
            }
        }
    }

    // ---- neighbourhoods of the range limits
    let anchors: [(&str, i64); 9] = [
        ("1", 308), ("17976931348623157", 292), ("17976931348623159", 292), ("22250738585072014", -324), ("49406564584124654", -340),
        ("24703282292062327", -340), ("5", -324), ("25", -325), ("1", -308)];
    for (m, e) in anchors {
        let base: u128 = m.parse().unwrap();
        // pad to 17, 19, 20 and 22 digits and walk ±delta in the last places
        for width in [m.len(), 17, 19, 20, 22] {
            if width < m.len() { continue; }
            let pad = (width - m.len()) as u32;
            let b = base * 10u128.pow(pad);
            let span: i64 = if thorough { 600 } else { 120 };
            for d in -span..=span {
                let v = b as i128 + d as i128;
                if v <= 0 { continue; }
                emit_spellings(sink, &mut r, &v.to_string(), e - pad as i64, "edge", false);
            }
            for _ in 0..(40 * scale) {
                let d = (r.next() % 2_000_000) as i128 - 1_000_000;
                let v = b as i128 + d * (if pad > 6 { 10i128.pow(pad - 6) } else { 1 });
                if v <= 0 { continue; }
                emit_spellings(sink, &mut r, &v.to_string(), e - pad as i64, "edge", false);
            }
        }
    }
    // values just around 2^1024 and the rounding threshold 2^1024 - 2^970 with 18..20 digit significands
    for (m, e) in [("179769313486231590772", 288i64), ("179769313486231580793", 288), ("179769313486231570814", 288)] {
        let base: u128 = m.parse().unwrap();
        for cut in 0..=3u32 {
            let b = base / 10u128.pow(cut);
            for d in -(30 * scale as i128)..=(30 * scale as i128) {
                emit_spellings(sink, &mut r, &((b as i128 + d).to_string()), e + cut as i64, "edge-max", false);
            }
        }
    }

    // ---- u64 / i64 boundaries and long integers (digit dropping)
    for base in [u64::MAX as u128, i64::MAX as u128 + 1, 1u128 << 53, 1u128 << 60, 1844674407370955161u128, 10u128.pow(19)] {
        for d in -12i128..=12 {
            let v = base as i128 + d;
            if v < 0 { continue; }
            let s = v.to_string();
            emit(sink, &s, "intedge"); emit(sink, &format!("-{}", s), "intedge");
            emit(sink, &format!("{}.0", s), "intedge"); emit(sink, &format!("{}e0", s), "intedge");
            emit(sink, &format!("{}{}", s, r.below(10)), "intedge");
            let (n1, n2, n3, n4) = (1 + r.below(4), r.below(5), 1 + r.below(4), r.below(30));
            let d1 = digits(&mut r, n1, false);
            emit(sink, &format!("{}.{}", s, d1), "intedge");
            let d2 = digits(&mut r, n2, false);
            let d3 = digits(&mut r, n3, false);
            emit(sink, &format!("{}{}.{}e-{}", s, d2, d3, n4), "intedge");
        }
    }
    for _ in 0..(300 * scale) {
        let lim = if r.chance(1, 6) { 310 } else { 30 };
        let n = 20 + r.below(lim);
        let s = digits(&mut r, n, true);
        emit(sink, &s, "longint");
        let n1 = 1 + r.below(5);
        let d1 = digits(&mut r, n1, false);
        emit(sink, &format!("-{}.{}", s, d1), "longint");
        emit(sink, &format!("{}e-{}", s, r.below(700)), "longint");
    }
    // integers on the u64/i64 path with more than 53 / 24 significant bits (f32 double-rounding candidates)
    for _ in 0..(400 * scale) {
        let sh = r.below(40) as u32;
        let hi = (r.next() >> 40) | (1 << 23);         // 24 significant bits
        let v: u64 = match r.below(3) {
            0 => ((hi << 1 | 1) << sh).wrapping_add(1),                  // just above an f32 midpoint
            1 => ((hi << 1 | 1) << sh).wrapping_sub(1),                  // just below
            _ => r.next() >> r.below(12),
        };
        emit(sink, &v.to_string(), "int53");
        if r.chance(1, 3) && v <= i64::MAX as u64 { emit(sink, &format!("-{}", v), "int53"); }
    }

    // ---- exponents around and beyond i32
    for _ in 0..(150 * scale) {
        let e: i128 = match r.below(4) {
            0 => i32::MAX as i128 + r.below(5) as i128 - 2,
            1 => (i32::MAX as i128) * 10 + r.below(20) as i128,
            2 => 214748364 + r.below(3) as i128 - 1,
            _ => r.next() as i128,
        };
        let n = 1 + r.below(25);
        let m = if r.chance(1, 5) { "0".to_string() } else { digits(&mut r, n, true) };
        let sgn = if r.chance(1, 2) { "-" } else { "" };
        let (z, n1) = (r.below(8), 1 + r.below(6));
        let d1 = digits(&mut r, n1, false);
        let lit = match r.below(3) {
            0 => format!("{}e{}{}", m, sgn, e),
            1 => format!("0.{}{}e{}{}", "0".repeat(z), m, sgn, e),
            _ => format!("{}.{}E{}{}", m, d1, sgn, e),
        };
        emit(sink, &lit, "bigexp");
    }

    // ---- the interval (2^-1076, 2^-1075): values that round to zero but are above the quarter-subnormal bound of the relative
    //      error analysis (c08_underflow_zero_sharp). For exponent -(324+i) the largest u64 significand below 2^-1075 is TINY[i].
    const TINY: [u64; 20] = [2, 24, 247, 2470, 24703, 247032, 2470328, 24703282, 247032822, 2470328229, 24703282292, 247032822920, 2470328229206,
        24703282292062, 247032822920623, 2470328229206232, 24703282292062327, 247032822920623272, 2470328229206232720, 18446744073709551615];
    for (i, &b) in TINY.iter().enumerate() {
        let e = -(324 + i as i64);
        emit_spellings(sink, &mut r, &b.to_string(), e, "tiny-band", true);
        for d in 1..=(3 * scale as u64) {
            if b > d { emit_spellings(sink, &mut r, &(b - d).to_string(), e, "tiny-band", false); }
            if let Some(v) = b.checked_add(d) { emit_spellings(sink, &mut r, &v.to_string(), e, "tiny-band", false); }
        }
        // the upper half of the interval, at random
        for _ in 0..(4 * scale) { let v = b / 2 + r.next() % (b / 2 + 1); if v > 0 { emit_spellings(sink, &mut r, &v.to_string(), e, "tiny-band", false); } }
    }
}
