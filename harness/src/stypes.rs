//! `StreamDeserializer<R, T>` over TYPED item types — the Rust side of `lean/SJ/Model/StreamTyped.lean`
//! (`nextT` / `historyT`; docs/STREAMTYPED-NOTES.md).
//!
//! The item type is `Item`, whose `Deserialize` impl runs the universal seed (`schema.rs`) of the schema held in a
//! thread-local (a `StreamDeserializer` wants `T: Deserialize`, not a seed).
//!
//! * `tstream <cfg> <src> <schema> <calls> <hex> => item@off,…` — `calls` calls of `next()`, `byte_offset()` after each;
//!   items `OK:<tval>`, `E:<hex msg>:<category>:<line>:<col>`, `N` (C12).
//! * `tstream3 <cfg> <schema> <calls> <hex> => str|slice|reader` — the three sources side by side (C09; `-` for `str`
//!   when the input is not UTF-8; random chunking of the reader).
//! * `tsfault <cfg> <schema> <kind> <k> <calls> <hex> => faulty|clean` — a reader that delivers `doc[..k]` and then fails
//!   with `kind` forever, against the same reader ending cleanly after `k` bytes (C13); items also `IO:<kind>`.
//! * `tspfx <cfg> <src> <schema> <calls> <hex> => h_0/h_1/…/h_n` — the history over EVERY prefix of the input (C10).
#![allow(dead_code)]
use crate::common::*;
use crate::gen::{chunk_sizes, mutate};
use crate::obs::*;
use crate::schema::*;
use serde::de::DeserializeSeed;
use serde_json::{Deserializer, StreamDeserializer};
use std::cell::RefCell;
use std::io::{self, ErrorKind, Read};
use std::panic::{catch_unwind, AssertUnwindSafe};

thread_local! { static CUR: RefCell<Schema> = RefCell::new(Schema::Unit); }

/// one stream item: a `TVal` read by the universal seed of the current schema
pub struct Item(pub TVal);
impl<'de> serde::Deserialize<'de> for Item {
    fn deserialize<D: serde::Deserializer<'de>>(d: D) -> Result<Item, D::Error> {
        CUR.with(|c| { let s = c.borrow(); Seed(&s).deserialize(d).map(Item) })
    }
}

const KINDS: &[(&str, ErrorKind)] = &[("BrokenPipe", ErrorKind::BrokenPipe), ("TimedOut", ErrorKind::TimedOut),
    ("UnexpectedEof", ErrorKind::UnexpectedEof), ("Other", ErrorKind::Other), ("InvalidData", ErrorKind::InvalidData)];
fn kind_name(k: ErrorKind) -> String { KINDS.iter().find(|x| x.1 == k).map(|x| x.0.to_string()).unwrap_or(format!("{:?}", k)) }

fn show_item(r: Option<serde_json::Result<Item>>) -> String {
    match r {
        None => "N".into(),
        Some(Ok(Item(t))) => format!("OK:{}", enc_tval(&t)),
        Some(Err(e)) => if e.classify() == serde_json::error::Category::Io { format!("IO:{}", e.io_error_kind().map(kind_name).unwrap_or("?".into())) } else { show_err(&e) },
    }
}

/// `calls` calls of `next()`, `byte_offset()` after each — also after errors and after the end
fn hist<'de, R: serde_json::de::Read<'de>>(mut s: StreamDeserializer<'de, R, Item>, calls: usize) -> String {
    let mut out: Vec<String> = Vec::with_capacity(calls);
    for _ in 0..calls {
        let o = show_item(s.next());
        out.push(format!("{}@{}", o, s.byte_offset()));
    }
    out.join(",")
}

fn guard<F: FnOnce() -> String>(f: F) -> String { catch_unwind(AssertUnwindSafe(f)).unwrap_or("PANIC".into()) }

/// one source's history
pub fn history(s: &Schema, src: &str, b: &[u8], calls: usize, sizes: Vec<usize>) -> String {
    CUR.with(|c| *c.borrow_mut() = s.clone());
    guard(|| match src {
        "str" => match std::str::from_utf8(b) { Ok(t) => hist(Deserializer::from_str(t).into_iter::<Item>(), calls), Err(_) => "-".into() },
        "slice" => hist(Deserializer::from_slice(b).into_iter::<Item>(), calls),
        _ => hist(Deserializer::from_reader(Chunked::new(b, sizes)).into_iter::<Item>(), calls),
    })
}

/// delivers data[..k] in chunks (sizes cycled), interleaving Interrupted, then fails with `kind` forever (or ends cleanly)
struct FaultReader<'a> { data: &'a [u8], k: usize, pos: usize, sizes: Vec<usize>, i: usize, kind: ErrorKind, intr: u64, clean: bool }
impl<'a> Read for FaultReader<'a> {
    fn read(&mut self, buf: &mut [u8]) -> io::Result<usize> {
        if self.intr % 3 == 1 { self.intr /= 3; return Err(io::Error::new(ErrorKind::Interrupted, "interrupted")); }
        self.intr = self.intr / 3 + 7;
        if self.pos >= self.k && self.clean { return Ok(0); }
        if self.pos >= self.k { return Err(io::Error::new(self.kind, "injected fault")); }
        if buf.is_empty() { return Ok(0); }
        let want = self.sizes[self.i % self.sizes.len()].max(1); self.i += 1;
        let n = want.min(buf.len()).min(self.k - self.pos);
        buf[..n].copy_from_slice(&self.data[self.pos..self.pos + n]);
        self.pos += n;
        Ok(n)
    }
}

pub fn fault_history(s: &Schema, doc: &[u8], k: usize, kind: ErrorKind, calls: usize, sizes: Vec<usize>, intr: u64, clean: bool) -> String {
    CUR.with(|c| *c.borrow_mut() = s.clone());
    let rd = FaultReader { data: doc, k, pos: 0, sizes, i: 0, kind, intr, clean };
    guard(|| hist(Deserializer::from_reader(rd).into_iter::<Item>(), calls))
}

fn hclass(o: &str) -> &'static str {
    if o.contains("PANIC") { "panic" } else if o.contains("IO:") { "io" } else if o.contains(":data:") { "data" } else if o.contains(":syntax:") { "syntax" }
    else if o.contains(":eof:") { "eof" } else { "clean" }
}
fn nvals(o: &str) -> usize { o.split(',').filter(|x| x.starts_with("OK:")).count().min(4) }
fn skind(s: &Schema) -> &'static str {
    match s {
        Schema::Bool => "bool", Schema::Int(_) => "int", Schema::F64 | Schema::F32 => "float", Schema::Char => "char", Schema::Str => "string", Schema::Bytes => "bytes",
        Schema::Option(_) => "option", Schema::Unit | Schema::UnitStruct => "unit", Schema::Newtype(_) => "newtype", Schema::Seq(_) => "seq", Schema::Tuple(_) => "tuple",
        Schema::Map(..) => "map", Schema::Struct(..) => "struct", Schema::Enum(_) => "enum", Schema::Ignored => "ignored", Schema::Any => "any",
    }
}

pub fn emit_tstream(sink: &mut Sink, cfg: &str, s: &Schema, se: &str, b: &[u8], calls: usize, r: &mut Rng, tag: &str) {
    for src in ["str", "slice", "reader"] {
        if src == "str" && std::str::from_utf8(b).is_err() { continue; }
        let sizes = chunk_sizes(r);
        let o = history(s, src, b, calls, sizes);
        sink.case("tstream", &[cfg, src, se, &calls.to_string(), &hexf(b)], &o, &format!("tstream:{}:{}:{}:{}v:{}", tag, skind(s), src, nvals(&o), hclass(&o)), b.len() > 1);
    }
}

pub fn emit_tstream3(sink: &mut Sink, cfg: &str, s: &Schema, se: &str, b: &[u8], calls: usize, r: &mut Rng, tag: &str) {
    let sizes = chunk_sizes(r);
    let o2 = history(s, "slice", b, calls, vec![]);
    let o3 = history(s, "reader", b, calls, sizes);
    let o = format!("{}|{}|{}", history(s, "str", b, calls, vec![]), o2, o3);
    sink.case("tstream3", &[cfg, se, &calls.to_string(), &hexf(b)], &o, &format!("tstream3:{}:{}:{}v:{}:{}", tag, skind(s), nvals(&o2), hclass(&o2), if o2 == o3 { "same" } else { "differ" }), b.len() > 1);
}

pub fn emit_tsfault(sink: &mut Sink, cfg: &str, s: &Schema, se: &str, doc: &[u8], calls: usize, r: &mut Rng, tag: &str) {
    for k in 0..=doc.len() {
        if doc.len() > 40 && !r.chance(40, doc.len() as u64) && k != doc.len() { continue; }
        let (kn, kind) = *r.pick(KINDS);
        let sizes = { let z = chunk_sizes(r); if z.is_empty() { vec![4096] } else { z } };
        let intr = r.next() % 729;
        let o = fault_history(s, doc, k, kind, calls, sizes.clone(), intr, false);
        let oc = fault_history(s, doc, k, kind, calls, sizes, intr, true);
        let term = o.split(',').find(|x| !(x.starts_with("OK:"))).map(|x| if x.starts_with("IO:") { "io" } else if x.starts_with("E:") { "error-before-fault" } else { "none" }).unwrap_or("values-only");
        sink.case("tsfault", &[cfg, se, kn, &k.to_string(), &calls.to_string(), &hexf(doc)], &format!("{}|{}", o, oc), &format!("tsfault:{}:{}:{}v:{}", tag, skind(s), nvals(&o), term), k > 0);
    }
}

// ---------------------------------------------------------------- corpus

/// hand-written (schema, stream) pairs: bare scalars where `peek_end_of_value` matters, self-delineated items without
/// separators, visitor errors, unpositioned errors, errors with a peeked byte, items cut short
fn crafted() -> Vec<(&'static str, &'static str)> {
    let mut v: Vec<(&'static str, &'static str)> = vec![];
    for t in ["", " ", "1", "1 ", "1 2", "12 3", "1x", "1,2", "1 2 3 4 5 6", "\n1\n2\n", "1]", "1}", "1:", "1\"a\"", "1[", "1{", "1-2", "1+2", "1.5 2", "1e5 2", "1e 2", "- 2", "01", "256 1", "1 256 2", "1 256",
              "-1 2", "1\t2\r\n3", "1 x", "1 [2]", "[1]", "1 \"a\"", "1 true", "1 null", "1.0 2", "1 2.0", "99999999999999999999 1", "1/2", "1 ,2", "1 , 2"] {
        for s in ["iA", "id", "ie", "iE", "d", "g", "OiA", "a", "x", "NiA"] { v.push((s, t)); }
    }
    for t in ["true", "truefalse", "true false", "truetrue", "true,false", "tru", "truex", "true x", "true 1", "falsetrue ", "true\"a\"", "true[", "true]", "nulltrue", "t", "true\nfalse\ntrue\n"] {
        for s in ["b", "Ob", "a", "x"] { v.push((s, t)); }
    }
    for t in ["null", "nullnull", "null null", "null[]", "nul", "nullx", "null 1", "null,null", "null\nnull", "null]"] {
        for s in ["u", "U", "Ob", "OiA", "OQb", "Ou", "OOb", "a", "x", "Os"] { v.push((s, t)); }
    }
    for t in ["\"a\"\"b\"", "\"a\" \"b\"", "\"a\"x", "\"a\"1", "\"a\"", "\"a", "\"a\"\"", "\"\\u00e9\"\"\\ud83d\\ude00\"", "\"\\ud800\" \"a\"", "\"ab\" \"c\"", "\"a\",\"b\"", "\"a\"]", "\"\u{e9}\"\n\"\u{e9}\u{1f600}\" \n x", "\"a\"null",
              "\"a\"\n\n\"b\"\n\u{1}"] {
        for s in ["s", "c", "y", "Os", "a", "x", "E2;61;u62;u"] { v.push((s, t)); }
    }
    for t in ["[1][2]", "[1] [2]", "[1]x", "[1]2", "[1],[2]", "[1", "[1,", "[1,]", "[1][", "[][]", "[ ] [ 1 , 2 ]", "[1]]", "[256][1]", "[1][256][2]", "[1,2][3]", "[true]", "[1][true][2]", "[\n1,\n2]\n\n[3", "[1]\n[2]\n[x]", "[1][2]}"] {
        for s in ["QiA", "T1;iA", "T2;iAiA", "y", "S01;61;iA", "a", "x", "OQiA", "NQiA", "iA", "b"] { v.push((s, t)); }
    }
    for t in ["{\"a\":1}{\"a\":2}", "{\"a\":1} {\"a\":2}", "{\"a\":1}x", "{\"a\":1", "{\"a\":1}{", "{}{}", "{\"a\":1}[1]", "{\"b\":1}{\"a\":2}", "{\"a\":1,\"a\":2}{\"a\":3}", "{\"a\":256}{\"a\":1}", "{\"1\":1}{\"2\":2}", "{\"x\":1}{\"2\":2}",
              "{\"a\":1}\n{\"a\":2}\n{\"a\"", "{\"a\":1}1"] {
        for s in ["S01;61;iA", "S11;61;iA", "MsiA", "MiAiA", "a", "x", "S02;61;iA62;OiA"] { v.push((s, t)); }
    }
    for t in ["\"V\"\"W\"", "\"V\" \"W\"", "\"V\"{\"W\":null}", "{\"V\":true}{\"V\":false}", "{\"V\":true}\"W\"x", "\"X\"\"V\"", "{\"V\":true,}\"W\"", "{\"V\":1}\"W\"", "\"T\"\"W\"", "{\"T\":[true,1]}{\"S\":{\"x\":1}}", "\"W\"1", "1\"W\"",
              "\"V\"", "{\"W\":null} \"W\" ,"] {
        v.push(("E4;56;nb57;u54;t2;biA53;r1;78;iA", t));
    }
    v
}

/// texts of one schema: matching values (compact or spaced), now and then a value of the wrong kind
fn item_text(s: &Schema, r: &mut Rng) -> String {
    let v = gen_value_for(s, r);
    if r.chance(1, 2) { serde_json::to_string(&v).unwrap() } else { let mut t = String::new(); crate::typed::spaced(&v, r, &mut t); t }
}

const SEPS: &[&str] = &["", " ", "\n", "\r\n", " \t", ",", "  "];

/// 1–4 item texts of the schema with a separator choice per gap (none included), optional leading / trailing whitespace
fn gen_tstream(s: &Schema, r: &mut Rng) -> (Vec<u8>, usize) {
    let k = 1 + r.below(4);
    let mut out: Vec<u8> = vec![];
    if r.chance(1, 4) { out.extend_from_slice(r.pick(&[" ", "\n", "\t "]).as_bytes()); }
    for i in 0..k {
        if i > 0 { let sep = if r.chance(1, 12) { "," } else { *r.pick(&SEPS[..5]) }; out.extend_from_slice(sep.as_bytes()); }
        out.extend_from_slice(item_text(s, r).as_bytes());
    }
    if r.chance(1, 3) { out.push(*r.pick(&[b' ', b'\n'])); }
    (out, k)
}

/// schemas for streams: scalars (where `peek_end_of_value` matters) weigh as much as containers
fn stream_schema(r: &mut Rng, i: usize) -> Schema {
    match i % 4 { 0 => gen_schema(r, 0), 1 => gen_schema(r, 1), 2 => gen_schema(r, 2),
        _ => dec_schema(*r.pick(&["iA", "id", "b", "u", "Ob", "OiA", "s", "d", "ie", "a", "x", "c", "NiA", "Os", "g", "iE"])) }
}

fn budget(thorough: bool, q: usize, t: usize) -> usize { if thorough { t } else { q } }

/// C12: every crafted pair and generated streams (complete, truncated, corrupted) from each source on its own line
pub fn run_c12(sink: &mut Sink, thorough: bool, seed: u64) {
    let mut r = Rng::new(seed ^ 0x7473_7472);
    let cfg = cfg_tag();
    for (se, t) in crafted() { let s = dec_schema(se); emit_tstream(sink, &cfg, &s, se, t.as_bytes(), 5, &mut r, "crafted"); }
    emit_tstream(sink, &cfg, &dec_schema("s"), "s", b"\"a\" \"\xff\" \"b\"", 4, &mut r, "crafted");
    for i in 0..budget(thorough, 1500, 12000) {
        let s = stream_schema(&mut r, i);
        let se = enc_schema(&s);
        let (b, k) = gen_tstream(&s, &mut r);
        emit_tstream(sink, &cfg, &s, &se, &b, k + 3, &mut r, "concat");
        if !b.is_empty() { let cut = r.below(b.len()); emit_tstream(sink, &cfg, &s, &se, &b[..cut], k + 3, &mut r, "truncated"); }
        for _ in 0..2 { let m = mutate(&b, &mut r); emit_tstream(sink, &cfg, &s, &se, &m, k + 3, &mut r, "corrupted"); }
    }
}

/// C09: the three sources side by side
pub fn run_c09(sink: &mut Sink, thorough: bool, seed: u64) {
    let mut r = Rng::new(seed ^ 0x7473_3039);
    let cfg = cfg_tag();
    for (se, t) in crafted() { let s = dec_schema(se); emit_tstream3(sink, &cfg, &s, se, t.as_bytes(), 5, &mut r, "crafted"); }
    emit_tstream3(sink, &cfg, &dec_schema("s"), "s", b"\"a\" \"\xff\" \"b\"", 4, &mut r, "crafted");
    for i in 0..budget(thorough, 1500, 12000) {
        let s = stream_schema(&mut r, i);
        let se = enc_schema(&s);
        let (b, k) = gen_tstream(&s, &mut r);
        emit_tstream3(sink, &cfg, &s, &se, &b, k + 3, &mut r, "concat");
        if !b.is_empty() { let cut = r.below(b.len()); emit_tstream3(sink, &cfg, &s, &se, &b[..cut], k + 3, &mut r, "truncated"); }
        for _ in 0..3 { let m = mutate(&b, &mut r); emit_tstream3(sink, &cfg, &s, &se, &m, k + 3, &mut r, "corrupted"); }
    }
}

/// C13: reader failing after every k bytes
pub fn run_c13(sink: &mut Sink, thorough: bool, seed: u64) {
    let mut r = Rng::new(seed ^ 0x7473_3133);
    let cfg = cfg_tag();
    for (n, (se, t)) in crafted().into_iter().enumerate() {
        if !thorough && n % 4 != (seed % 4) as usize { continue; }
        let s = dec_schema(se); emit_tsfault(sink, &cfg, &s, se, t.as_bytes(), 5, &mut r, "crafted");
    }
    for i in 0..budget(thorough, 400, 4000) {
        let s = stream_schema(&mut r, i);
        let se = enc_schema(&s);
        let (b, k) = gen_tstream(&s, &mut r);
        let b = if r.chance(1, 4) { mutate(&b, &mut r) } else { b };
        emit_tsfault(sink, &cfg, &s, &se, &b, k + 3, &mut r, "concat");
    }
}

// ---------------------------------------------------------------- C12 / C14: the depth budget between the items of one stream

const DEPTH_KINDS: [&str; 11] = ["seq", "tuple", "map", "struct-map", "struct-seq", "enum-newtype", "enum-tuple", "enum-struct", "opt-newtype-vec", "int-map", "rotation"];

/// One schema with a text for every number of layers: `item(d)` = the texts of the `d` outermost layers around `bottom`.
/// `cum[d]` = containers the `d` outermost layers open; `bottom_levels` = containers of `bottom` itself; items of fewer
/// than `min` layers do not fit the schema.
struct Ladder { schema: Schema, se: String, pre: Vec<&'static str>, post: Vec<&'static str>, cum: Vec<usize>, bottom: &'static str, bottom_levels: usize, min: usize }
impl Ladder {
    fn new(schema: Schema, layers: &[(&'static str, &'static str, usize)], bottom: &'static str, bottom_levels: usize, min: usize) -> Ladder {
        let mut cum = vec![0usize];
        for l in layers { let c = cum[cum.len() - 1] + l.2; cum.push(c); }
        Ladder { se: enc_schema(&schema), schema, pre: layers.iter().map(|l| l.0).collect(), post: layers.iter().map(|l| l.1).collect(), cum, bottom, bottom_levels, min }
    }
    fn levels(&self, d: usize) -> usize { self.cum[d.min(self.pre.len())] + self.bottom_levels }
    /// the most layers whose item nests at most `limit` containers
    fn fit(&self, limit: usize) -> usize { (0..=self.pre.len()).filter(|d| self.levels(*d) <= limit).max().unwrap_or(0).max(self.min) }
    fn item_with(&self, d: usize, bottom: &str) -> String {
        let d = d.min(self.pre.len()).max(self.min);
        let mut t = String::new();
        for p in &self.pre[..d] { t.push_str(p); }
        t.push_str(bottom);
        for p in self.post[..d].iter().rev() { t.push_str(p); }
        t
    }
    fn item(&self, d: usize) -> String { self.item_with(d, self.bottom) }
}

fn ladder_kind(kind: usize, i: usize) -> usize { if kind == 10 { (i + 3) % 10 } else { kind } }

/// `Option<layer<Option<layer<…Option<bool>…>>>>` of layer kind `kind` (10 = rotation), enough layers to nest 132 containers:
/// an item of any smaller number of layers ends in `null` (`Option` takes nothing from the budget)
fn opt_ladder(kind: usize) -> Ladder {
    let mut layers: Vec<(&'static str, &'static str, usize)> = vec![]; let mut kinds: Vec<usize> = vec![]; let mut c = 0;
    while c < 132 { let k = ladder_kind(kind, kinds.len()); let (_, a, b, l) = crate::typed::layer(k, Schema::Bool); layers.push((a, b, l)); kinds.push(k); c += l; }
    let mut s = Schema::Option(Box::new(Schema::Bool));
    for k in kinds.iter().rev() { s = Schema::Option(Box::new(crate::typed::layer(*k, s).0)); }
    Ladder::new(s, &layers, "null", 0, 1)
}

/// `Vec<Vec<…Vec<bool>…>>` (kind 0), `Map<String, Map<…>>` (2), `Option<Newtype<Vec<…>>>` (8), `Map<u8, …>` (9), 131 layers:
/// an item of fewer layers ends in the empty container `[]` / `{}`
fn bare_ladder(kind: usize) -> Ladder {
    let (_, a, b, l) = crate::typed::layer(kind, Schema::Bool);
    let (s, _, _) = crate::typed::tower(kind, 131, &Schema::Bool, "true");
    Ladder::new(s, &vec![(a, b, l); 130], if a.starts_with('[') { "[]" } else { "{}" }, 1, 0)
}

/// `n` typed layers (kind 10: `tower`'s rotation) around a `Value`: the nesting goes on inside the `Value`, on the same budget
/// (`style` 0 arrays, 1 objects, 2 alternating)
fn any_ladder(kind: usize, n: usize, style: usize) -> Ladder {
    let (s, _, _) = crate::typed::tower(kind, n, &Schema::Any, "7");
    let mut layers: Vec<(&'static str, &'static str, usize)> = vec![];
    for i in 0..n { let (_, a, b, l) = crate::typed::layer(if kind == 10 { i % 10 } else { kind }, Schema::Bool); layers.push((a, b, l)); }
    for j in 0..136 { layers.push(if style == 0 || (style == 2 && j % 2 == 0) { ("[", "]", 1) } else { ("{\"a\":", " }", 1) }); }
    Ladder::new(s, &layers, "7", 0, n)
}

const DEPTH_SEPS: &[&str] = &["", " ", "\n"];

fn depth_join(items: &[String], r: &mut Rng) -> Vec<u8> {
    let mut out: Vec<u8> = vec![];
    for (i, t) in items.iter().enumerate() { if i > 0 { out.extend_from_slice(r.pick(DEPTH_SEPS).as_bytes()); } out.extend_from_slice(t.as_bytes()); }
    if r.chance(1, 3) { out.push(b'\n'); }
    out
}

fn emit_depth(sink: &mut Sink, cfg: &str, l: &Ladder, items: &[String], r: &mut Rng, tag: &str) {
    let b = depth_join(items, r);
    emit_tstream(sink, cfg, &l.schema, &l.se, &b, items.len() + 2, r, tag);
}

/// the stream shapes of one ladder: `fit` = the deepest item within the limit (127 containers; 126 for the kinds that open
/// two per layer, whatever the rotation reaches), `fit+1` the first beyond it
fn depth_shapes(sink: &mut Sink, cfg: &str, l: &Ladder, r: &mut Rng, fam: &str, bads: &[usize], shapes: &[&str]) {
    let f = l.fit(127);
    for sh in shapes {
        let items: Vec<String> = match *sh {
            "fit3" => vec![l.item(f), l.item(f), l.item(f)],
            "ramp" => vec![l.item(f - 1), l.item(f), l.item(f + 1), l.item(f)],
            "shallow" => vec![l.item(l.min), l.item(f), l.item(l.min + 1), l.item(f)],
            "over-first" => vec![l.item(f + 1), l.item(f)],
            "over2" => vec![l.item(f + 2), l.item(f), l.item(f)],
            "many" => { let mut v: Vec<String> = (0..40).map(|j| l.item(l.min + j % 3)).collect(); v.push(l.item(f)); v.push(l.item(f + 1)); v }
            _ => continue,
        };
        emit_depth(sink, cfg, l, &items, r, &format!("depth:{}:{}", fam, sh));
    }
    // an item that fails deep inside for another reason (a mistyped / malformed leaf, a trailing comma), then one that fits
    for bi in bads {
        let (name, bottom): (&str, String) = match bi % 4 { 0 => ("tx", "tx".into()), 1 => ("minus", "-x".into()), 2 => ("comma", format!("{},", l.bottom)), _ => ("mistyped", "\"s\"".into()) };
        let items = vec![l.item(f), l.item_with(f - 7, &bottom), l.item(f)];
        emit_depth(sink, cfg, l, &items, r, &format!("depth:{}:bad-{}", fam, name));
    }
}

/// C12 / C14: `remaining_depth` between the typed items of ONE stream. `check_recursion!` takes one from the budget when a
/// container opens and gives it back when the container's visitor returns (7 sites: `deserialize_any` `[` `{`,
/// `deserialize_seq`, `deserialize_map`, `deserialize_struct` `[` `{`, `deserialize_enum` `{`); one `Deserializer` reads every
/// item of a `StreamDeserializer`, so a level that is not given back would make a LATER item fail with
/// `RecursionLimitExceeded` (and a level given back twice would let a too deep item through). In the model (`historyT`)
/// every item starts with the whole budget. Streams of several items of one schema, nesting to different depths around the
/// limit (op `tstream`, tags `depth:<family>:<layer kind>:<shape>`):
/// * `opt` — `Option`-interleaved towers of each of the ten layer kinds and their rotation (an item stops anywhere with `null`);
/// * `bare` — `Vec<Vec<…>>`, nested maps, `Option<Newtype<Vec<…>>>` 131 high (an item stops with `[]` / `{}`);
/// * `any` — one (thorough: two, ten) typed layers around a `Value`, which nests on; `anymid` — about 100 typed levels, then `Value`;
/// * `exact` — towers of exactly 126 / 127 / 128 levels around `true`, three equal items;
/// * `wide` — `Vec<tower>`: an item of 130 shallow siblings (each takes and returns its levels), then a deepest one.
/// Shapes: `fit3` [127,127,127]; `ramp` [126,127,128 fails,127 never read]; `shallow` [1,127,2,127]; `over-first` [128,127];
/// `over2` [129,127,127]; `many` 40 shallow items, 127, 128; `bad-*` [127, an item failing at depth 120 for another reason, 127].
pub fn run_depth(sink: &mut Sink, thorough: bool, seed: u64) {
    let mut r = Rng::new(seed ^ 0x7473_6470);
    let cfg = cfg_tag();
    let all: &[&str] = &["fit3", "ramp", "shallow", "over-first", "over2", "many"];
    for kind in 0..=10usize {
        let kn = DEPTH_KINDS[kind];
        let l = opt_ladder(kind);
        let bads: Vec<usize> = if thorough { vec![0, 1, 2, 3] } else { vec![kind + (seed as usize)] };
        depth_shapes(sink, &cfg, &l, &mut r, &format!("opt:{}", kn), &bads, all);
        if [0usize, 2, 8, 9].contains(&kind) {
            let l = bare_ladder(kind);
            depth_shapes(sink, &cfg, &l, &mut r, &format!("bare:{}", kn), &[2], if thorough { all } else { &all[..4] });
        }
        let anys: Vec<(usize, usize)> = if thorough { vec![(1, 0), (1, 1), (2, 2), (10, 2)] } else { vec![(1, (kind + seed as usize) % 3)] };
        for (n, style) in anys {
            let l = any_ladder(kind, n, style);
            depth_shapes(sink, &cfg, &l, &mut r, &format!("any:{}", kn), &[bads[0] % 3], &all[..5]);
        }
        {
            let n = if crate::typed::layer(kind, Schema::Bool).3 == 2 { 50 } else { 100 };
            let l = any_ladder(kind, n, 2);
            depth_shapes(sink, &cfg, &l, &mut r, &format!("anymid:{}", kn), &[], &["ramp"]);
        }
        // exact heights: every item is the same tower around `true`
        let hs: Vec<usize> = (1..=130).filter(|n| { let lv = crate::typed::tower(kind, *n, &Schema::Bool, "true").2; lv >= if thorough { 124 } else { 126 } && lv <= 128 }).collect();
        for n in hs {
            let (s, text, levels) = crate::typed::tower(kind, n, &Schema::Bool, "true");
            let b = depth_join(&vec![text; 3], &mut r);
            emit_tstream(sink, &cfg, &s, &enc_schema(&s), &b, 5, &mut r, &format!("depth:exact:{}:same3-{}", kn, levels));
        }
        // wide, then deep: `Vec<tower>`
        let e = opt_ladder(kind);
        let ws = Schema::Seq(Box::new(e.schema.clone()));
        let wse = enc_schema(&ws);
        let wide = |m: usize| format!("[{}]", (0..130).map(|j| e.item(1 + (j + m) % 3)).collect::<Vec<_>>().join(","));
        let f = e.fit(126);
        let deep = |d: usize| format!("[{}, {} ]", e.item(1), e.item(d));
        let streams: Vec<(&str, Vec<String>)> = vec![("wide-fit", vec![wide(0), deep(f)]), ("wide2-ramp", vec![wide(1), wide(2), deep(f), deep(f + 1), deep(f)])];
        for (sh, items) in streams {
            let b = depth_join(&items, &mut r);
            emit_tstream(sink, &cfg, &ws, &wse, &b, items.len() + 2, &mut r, &format!("depth:wide:{}:{}", kn, sh));
        }
    }
}

pub fn emit_tspfx(sink: &mut Sink, cfg: &str, s: &Schema, se: &str, src: &str, b: &[u8], calls: usize, sizes: Vec<usize>, tag: &str) {
    if src == "str" && std::str::from_utf8(b).is_err() { return; }
    let hs: Vec<String> = (0..=b.len()).map(|k| history(s, src, &b[..k], calls, sizes.clone())).collect();
    let full = hs.last().cloned().unwrap_or_default();
    sink.case("tspfx", &[cfg, src, se, &calls.to_string(), &hexf(b)], &hs.join("/"), &format!("tspfx:{}:{}:{}:{}v:{}", tag, skind(s), src, nvals(&full), hclass(&full)), b.len() > 1);
}

/// C10: whole histories over every prefix of streams that yield values
pub fn run_c10(sink: &mut Sink, thorough: bool, seed: u64) {
    let mut r = Rng::new(seed ^ 0x7473_3130);
    let cfg = cfg_tag();
    for (n, (se, t)) in crafted().into_iter().enumerate() {
        if !thorough && n % 3 != (seed % 3) as usize { continue; }
        let s = dec_schema(se);
        if !history(&s, "slice", t.as_bytes(), 1, vec![]).starts_with("OK:") { continue; }
        let src = *r.pick(&["str", "slice", "reader"]);
        emit_tspfx(sink, &cfg, &s, se, src, t.as_bytes(), 6, chunk_sizes(&mut r), "crafted");
    }
    // the inherent exception through a typed stream: a prefix that is a complete out-of-range float literal (known finding)
    let big = format!("1{}e-395 2", "0".repeat(400));
    for se in ["d", "g", "a"] { emit_tspfx(sink, &cfg, &dec_schema(se), se, "slice", big.as_bytes(), 3, vec![], "corpus-range"); }
    for i in 0..budget(thorough, 300, 3000) {
        let s = stream_schema(&mut r, i);
        let se = enc_schema(&s);
        let (b, k) = gen_tstream(&s, &mut r);
        if b.len() > 120 { continue; }
        let src = *r.pick(&["str", "slice", "reader"]);
        emit_tspfx(sink, &cfg, &s, &se, src, &b, k + 2, chunk_sizes(&mut r), "concat");
    }
}

pub fn replay(sink: &mut Sink, toks: &[&str]) {
    let cfg = cfg_tag();
    let mut r = Rng::new(1);
    match toks[0] {
        "tspfx" if toks.len() >= 6 => { let s = dec_schema(toks[3]); emit_tspfx(sink, &cfg, &s, toks[3], toks[2], &unhex(toks[5]), toks[4].parse().unwrap_or(4), vec![3], "replay"); }
        "tstream" if toks.len() >= 6 => {
            let s = dec_schema(toks[3]); let b = unhex(toks[5]); let calls: usize = toks[4].parse().unwrap_or(4);
            let o = history(&s, toks[2], &b, calls, vec![3]);
            sink.case("tstream", &[&cfg, toks[2], toks[3], toks[4], toks[5]], &o, "replay", true);
        }
        "tstream3" if toks.len() >= 5 => { let s = dec_schema(toks[2]); emit_tstream3(sink, &cfg, &s, toks[2], &unhex(toks[4]), toks[3].parse().unwrap_or(4), &mut r, "replay"); }
        "tsfault" if toks.len() >= 7 => {
            let s = dec_schema(toks[2]);
            let kind = KINDS.iter().find(|x| x.0 == toks[3]).map(|x| x.1).unwrap_or(ErrorKind::Other);
            let k: usize = toks[4].parse().unwrap_or(0); let calls: usize = toks[5].parse().unwrap_or(4);
            let doc = unhex(toks[6]);
            let o = fault_history(&s, &doc, k, kind, calls, vec![3], 0, false);
            let oc = fault_history(&s, &doc, k, kind, calls, vec![3], 0, true);
            sink.case("tsfault", &[&cfg, toks[2], toks[3], toks[4], toks[5], toks[6]], &format!("{}|{}", o, oc), "replay", true);
        }
        _ => {}
    }
}
