//! C19, second part (docs/STREAMRAW-NOTES.md, "Third round"): `RawValue` as a struct field, and `RawValue` ⇄ `Value`.
//!
//! * `rawfld <cfg> <shape> <hex doc> => str|slice|reader` — real `serde_derive` structs whose fields are `Box<RawValue>` /
//!   `Option<Box<RawValue>>` (shape `s1`; `s2` = with `deny_unknown_fields`; `s3` = next to a typed field `Option<u32>`),
//!   deserialised from a `&str`, a byte slice and a chunked reader. Observation per source: `OK:` + the struct as a typed
//!   value (`R<n>;` fields in declaration order: `s<hex>;` the captured text, `n` / `S…` for an `Option`), or the error.
//!   The borrowed twin (`&RawValue` fields) is run from `&str` / slice too and must return the same texts as subslices of
//!   the input (`NOTSUB` / `DIFF:` otherwise).  Model: `Model.RawStruct.rawStructTop`.
//! * `rawconv <cfg> <hex doc> <float table> => cap|tv|pv|fv|fvr|ts|rt` — `cap` = the text `from_str::<Box<RawValue>>`
//!   captures (`R<hex>` or `-`), `tv` = `to_value(&raw)` (`V<value>` / error), `pv` = `from_str::<Value>(doc)`,
//!   `fv` = text of `from_value::<Box<RawValue>>(value)`, `fvr` = text of `Box::<RawValue>::deserialize(&value)`,
//!   `ts` = `to_string(&value)`, `rt` = `to_value` of the `RawValue` made by `from_value` compared with `value` (`=`).
//!   Model: `Model.RawConv.toValueRaw` / `fromValueRaw`.
#![cfg(feature = "rv")]
use crate::common::*;
use crate::gen::*;
use crate::obs::*;
use serde::Deserialize;
use serde_json::value::RawValue;
use serde_json::Value;

fn g<F: FnOnce() -> String>(f: F) -> String { std::panic::catch_unwind(std::panic::AssertUnwindSafe(f)).unwrap_or("PANIC".into()) }

// ------------------------------------------------------------------------------------------------ rawfld

#[derive(Deserialize)]
struct S1 { a: Box<RawValue>, b: Option<Box<RawValue>>, c: Box<RawValue> }
#[derive(Deserialize)]
struct S1B<'x> { #[serde(borrow)] a: &'x RawValue, #[serde(borrow)] b: Option<&'x RawValue>, #[serde(borrow)] c: &'x RawValue }
#[derive(Deserialize)]
#[serde(deny_unknown_fields)]
struct S2 { a: Box<RawValue>, b: Option<Box<RawValue>> }
#[derive(Deserialize)]
#[serde(deny_unknown_fields)]
struct S2B<'x> { #[serde(borrow)] a: &'x RawValue, #[serde(borrow)] b: Option<&'x RawValue> }
#[derive(Deserialize)]
struct S3 { id: Option<u32>, payload: Box<RawValue>, tail: Box<RawValue> }
#[derive(Deserialize)]
struct S3B<'x> { id: Option<u32>, #[serde(borrow)] payload: &'x RawValue, #[serde(borrow)] tail: &'x RawValue }

fn fs(x: &RawValue) -> String { format!("s{};", hex(x.get().as_bytes())) }
fn fo(x: Option<&RawValue>) -> String { match x { None => "n".into(), Some(r) => format!("S{}", fs(r)) } }
fn fid(x: Option<u32>) -> String { match x { None => "n".into(), Some(i) => format!("Si{};", i) } }
fn within(base: &[u8], x: &RawValue) -> bool {
    let o = x.get().as_ptr() as usize; let b = base.as_ptr() as usize;
    o >= b && o + x.get().len() <= b + base.len()
}

fn show1(r: serde_json::Result<S1>) -> String { match r { Ok(x) => format!("OK:R3;{}{}{}", fs(&x.a), fo(x.b.as_deref()), fs(&x.c)), Err(e) => show_err(&e) } }
fn show1b(base: &[u8], r: serde_json::Result<S1B>) -> String {
    match r { Ok(x) => if !within(base, x.a) || !within(base, x.c) || x.b.map_or(false, |y| !within(base, y)) { "NOTSUB".into() }
                       else { format!("OK:R3;{}{}{}", fs(x.a), fo(x.b), fs(x.c)) }, Err(e) => show_err(&e) } }
fn show2(r: serde_json::Result<S2>) -> String { match r { Ok(x) => format!("OK:R2;{}{}", fs(&x.a), fo(x.b.as_deref())), Err(e) => show_err(&e) } }
fn show2b(base: &[u8], r: serde_json::Result<S2B>) -> String {
    match r { Ok(x) => if !within(base, x.a) || x.b.map_or(false, |y| !within(base, y)) { "NOTSUB".into() }
                       else { format!("OK:R2;{}{}", fs(x.a), fo(x.b)) }, Err(e) => show_err(&e) } }
fn show3(r: serde_json::Result<S3>) -> String { match r { Ok(x) => format!("OK:R3;{}{}{}", fid(x.id), fs(&x.payload), fs(&x.tail)), Err(e) => show_err(&e) } }
fn show3b(base: &[u8], r: serde_json::Result<S3B>) -> String {
    match r { Ok(x) => if !within(base, x.payload) || !within(base, x.tail) { "NOTSUB".into() }
                       else { format!("OK:R3;{}{}{}", fid(x.id), fs(x.payload), fs(x.tail)) }, Err(e) => show_err(&e) } }

/// boxed and borrowed twins must agree: the same value, or errors of the same category at the same position (the
/// wording of a visitor error names the struct)
fn same(boxed: String, borrowed: String) -> String {
    fn pos(e: &str) -> Option<String> { if !e.starts_with("E:") { return None; } let v: Vec<&str> = e.split(':').collect(); if v.len() == 5 { Some(format!("{}:{}:{}", v[2], v[3], v[4])) } else { None } }
    if boxed == borrowed || (pos(&boxed).is_some() && pos(&boxed) == pos(&borrowed)) { boxed } else { format!("DIFF:{}/{}", boxed, borrowed) }
}

pub fn fld_obs(shape: &str, b: &[u8], sizes: Vec<usize>) -> String {
    let st = std::str::from_utf8(b).ok();
    let mut outs = vec![];
    match shape {
        "s1" => {
            outs.push(match st { Some(s) => g(|| same(show1(serde_json::from_str::<S1>(s)), show1b(b, serde_json::from_str::<S1B>(s)))), None => "-".into() });
            outs.push(g(|| same(show1(serde_json::from_slice::<S1>(b)), show1b(b, serde_json::from_slice::<S1B>(b)))));
            outs.push(g(|| show1(serde_json::from_reader::<_, S1>(Chunked::new(b, sizes)))));
        }
        "s2" => {
            outs.push(match st { Some(s) => g(|| same(show2(serde_json::from_str::<S2>(s)), show2b(b, serde_json::from_str::<S2B>(s)))), None => "-".into() });
            outs.push(g(|| same(show2(serde_json::from_slice::<S2>(b)), show2b(b, serde_json::from_slice::<S2B>(b)))));
            outs.push(g(|| show2(serde_json::from_reader::<_, S2>(Chunked::new(b, sizes)))));
        }
        _ => {
            outs.push(match st { Some(s) => g(|| same(show3(serde_json::from_str::<S3>(s)), show3b(b, serde_json::from_str::<S3B>(s)))), None => "-".into() });
            outs.push(g(|| same(show3(serde_json::from_slice::<S3>(b)), show3b(b, serde_json::from_slice::<S3B>(b)))));
            outs.push(g(|| show3(serde_json::from_reader::<_, S3>(Chunked::new(b, sizes)))));
        }
    }
    outs.join("|")
}

pub fn emit_fld(sink: &mut Sink, cfg: &str, shape: &str, b: &[u8], r: &mut Rng, tag: &str) {
    let o = fld_obs(shape, b, chunk_sizes(r));
    let m = o.split('|').nth(1).unwrap_or("");
    let class = if m.starts_with("OK") { "captured" } else if m.contains(":eof:") { "eof" } else if m.contains(":data:") { "data" } else { "syntax" };
    sink.case("rawfld", &[cfg, shape, &hexf(b)], &o, &format!("rawfld:{}:{}:{}", tag, shape, class), b.len() > 2);
}

fn wsp(r: &mut Rng) -> Vec<u8> { let mut w = vec![]; for _ in 0..r.below(3) { w.push(*r.pick(&[b' ', b'\n', b'\t', b'\r'])); } w }

/// an object text over the field names of the shape (plus unknown / escaped / duplicated ones), values = generated documents
fn gen_struct_doc(r: &mut Rng, shape: &str) -> Vec<u8> {
    let known: &[&[u8]] = match shape { "s1" => &[b"\"a\"", b"\"b\"", b"\"c\""], "s2" => &[b"\"a\"", b"\"b\""], _ => &[b"\"id\"", b"\"payload\"", b"\"tail\""] };
    let mut keys: Vec<Vec<u8>> = known.iter().map(|k| k.to_vec()).collect();
    // drop / duplicate / add unknown / spell with an escape
    if r.chance(1, 6) { let i = r.below(keys.len()); keys.remove(i); }
    if r.chance(1, 8) { let i = r.below(keys.len().max(1)); if let Some(k) = keys.get(i).cloned() { keys.push(k); } }
    if r.chance(1, 3) { let i = r.below(keys.len() + 1); keys.insert(i, r.pick(&[&b"\"x\""[..], b"\"skipped\"", b"\"\"", b"\"A\""]).to_vec()); }
    if r.chance(1, 6) { let i = r.below(keys.len().max(1)); if let Some(k) = keys.get_mut(i) { if k.as_slice() == b"\"a\"" { *k = b"\"\\u0061\"".to_vec(); } } }
    // order
    for i in (1..keys.len()).rev() { let j = r.below(i + 1); keys.swap(i, j); }
    let mut doc = wsp(r); doc.push(b'{'); doc.extend(wsp(r));
    for (i, k) in keys.iter().enumerate() {
        if i > 0 { doc.push(b','); doc.extend(wsp(r)); }
        doc.extend_from_slice(k); doc.extend(wsp(r)); doc.push(b':'); doc.extend(wsp(r));
        if k.as_slice() == b"\"id\"" && r.chance(3, 4) { doc.extend_from_slice(*r.pick(&[&b"7"[..], b"null", b"4294967295", b"0"])); }
        else if r.chance(1, 6) { doc.extend_from_slice(b"null"); }
        else { gen_doc_into(r, 2, &mut doc); }
        doc.extend(wsp(r));
    }
    doc.push(b'}'); doc.extend(wsp(r)); doc
}

const FLD_CORPUS: &[&str] = &[
    "{\"a\":1,\"b\":2,\"c\":3}", " { \"c\" : [ 1 , 2 ] , \"a\" : {\"k\" : \"}\"} } ", "{\"a\":1,\"c\":2,\"b\":null}", "{\"a\":1,\"c\":2,\"b\": nul}",
    "{\"a\":null,\"c\":null}", "{\"a\":1,\"x\":[1,{\"a\":2}],\"c\":3}", "{\"a\":1,\"a\":2,\"c\":3}", "{\"a\":1,\"b\":2,\"b\":3,\"c\":4}", "{\"a\":1}", "{\"c\":1}", "{}",
    "{\"\\u0061\":1,\"c\":2}", "{\"a\":1,\"c\":2,}", "{\"a\":1 \"c\":2}", "{\"a\":1,\"c\":}", "{\"a\":1,\"c\"", "{\"a\" 1}", "{\"a\":1,\"c\":2}x", "[1,2,3]", "[1,null,3]", "[1,2]",
    "[1,2,3,4]", "[1,2,3", "1", "null", "\"a\"", "{\"a\":\"\\ud800\",\"c\":1e999}", "{\"a\":1,\"x\":\"\\ud800\",\"c\":2}", "{\"a\":1,\"\\ud800\":3,\"c\":2}",
    "{\"id\":7,\"payload\":{\"p\":[ ]},\"tail\": 1e5 }", "{\"id\":-1,\"payload\":1,\"tail\":2}", "{\"id\":null,\"payload\":1,\"tail\":2}", "{\"payload\":1,\"tail\":2}",
    "{\"id\":\"x\",\"payload\":1,\"tail\":2}", "{\"payload\":1,\"skipped\":{\"id\":3},\"tail\":2,\"id\":4294967296}", "[7,1,2]", "[null,[1],{\"a\":2}]",
];

pub fn run_fld(sink: &mut Sink, thorough: bool, seed: u64) {
    let mut r = Rng::new(seed ^ 0x5eed_19b);
    let cfg = cfg_tag();
    for s in FLD_CORPUS { for sh in ["s1", "s2", "s3"] { emit_fld(sink, &cfg, sh, s.as_bytes(), &mut r, "corpus"); } }
    emit_fld(sink, &cfg, "s1", b"{\"a\":\"\xff\",\"c\":1}", &mut r, "corpus");
    emit_fld(sink, &cfg, "s1", b"{\"a\":1,\"x\":\"\xff\",\"c\":1}", &mut r, "corpus");
    emit_fld(sink, &cfg, "s1", b"{\"a\":1,\"\xff\":2,\"c\":1}", &mut r, "corpus");
    emit_fld(sink, &cfg, "s1", b"{\"a\":1,\"c\":1,\"b\":\"\xc3\"}", &mut r, "corpus");
    // exhaustive short token sequences as the value of a raw field, of an Option field, of an unknown field, as a key
    let toks = tokens();
    for len in 1..=(if thorough { 3 } else { 2 }) {
        let mut inputs: Vec<Vec<u8>> = vec![];
        exhaustive(&toks, len, 0, 1, |b| inputs.push(b.to_vec()));
        for b in inputs {
            if len == 3 && b.len() % 2 == 1 { continue; }
            let w = [&b"{\"a\":"[..], &b, b",\"c\":1}"].concat(); emit_fld(sink, &cfg, "s1", &w, &mut r, &format!("exhw{}", len));
            let w = [&b"{\"c\":0,\"b\":"[..], &b, b",\"a\":1}"].concat(); emit_fld(sink, &cfg, "s1", &w, &mut r, &format!("exhw{}", len));
            let w = [&b"{\"a\":0,\"x\":"[..], &b, b",\"c\":1}"].concat(); emit_fld(sink, &cfg, "s1", &w, &mut r, &format!("exhw{}", len));
            let w = [&b"{\"a\":0,"[..], &b, b":2,\"c\":1}"].concat(); emit_fld(sink, &cfg, "s1", &w, &mut r, &format!("exhw{}", len));
            let w = [&b"{\"b\":"[..], &b, b",\"a\":1}"].concat(); emit_fld(sink, &cfg, "s2", &w, &mut r, &format!("exhw{}", len));
            if len < 3 { let w = [&b"{\"payload\":"[..], &b, b",\"tail\":1}"].concat(); emit_fld(sink, &cfg, "s3", &w, &mut r, &format!("exhw{}", len)); }
        }
    }
    for _ in 0..(if thorough { 8000 } else { 800 }) {
        for sh in ["s1", "s2", "s3"] {
            let d = gen_struct_doc(&mut r, sh);
            emit_fld(sink, &cfg, sh, &d, &mut r, "doc");
            for _ in 0..2 { let m = mutate(&d, &mut r); emit_fld(sink, &cfg, sh, &m, &mut r, "mut"); }
            if r.chance(1, 8) { for k in 0..d.len() { emit_fld(sink, &cfg, sh, &d[..k], &mut r, "prefix"); } }
        }
    }
}

// ------------------------------------------------------------------------------------------------ rawconv

/// `bits:hex text` of every float of the value as the crate prints it (the driver cannot compute ryu)
fn float_table(v: &Value) -> String {
    if cfg!(feature = "ap") { return "-".to_string(); }
    fn go(v: &Value, out: &mut Vec<String>) {
        match v {
            Value::Number(n) if n.is_f64() => {
                let f = n.as_f64().unwrap();
                let t = serde_json::to_string(&f).unwrap_or_else(|_| "ERR".into());
                let item = format!("{:016x}:{}", f.to_bits(), hex(t.as_bytes()));
                if !out.contains(&item) { out.push(item); }
            }
            Value::Array(xs) => for x in xs { go(x, out); },
            Value::Object(m) => for (_, x) in m { go(x, out); },
            _ => {}
        }
    }
    let mut out = vec![];
    go(v, &mut out);
    if out.is_empty() { "-".to_string() } else { out.join(",") }
}

fn show_value(r: serde_json::Result<Value>) -> String { match r { Ok(v) => format!("V{}", enc(&v)), Err(e) => show_err(&e) } }

pub fn emit_conv(sink: &mut Sink, cfg: &str, b: &[u8], tag: &str) {
    let s = match std::str::from_utf8(b) { Ok(s) => s, Err(_) => return };
    let value = serde_json::from_str::<Value>(s);
    let table = match &value { Ok(v) => float_table(v), Err(_) => "-".into() };
    let raw = serde_json::from_str::<Box<RawValue>>(s);
    let cap = match &raw { Ok(x) => format!("R{}", hexf(x.get().as_bytes())), Err(_) => "-".into() };
    let tv = match &raw { Ok(x) => g(|| show_value(serde_json::to_value(x))), Err(_) => "-".into() };
    let pv = g(|| show_value(serde_json::from_str::<Value>(s)));
    let (fv, fvr, ts, rt) = match &value {
        Err(_) => ("-".to_string(), "-".to_string(), "-".to_string(), "-".to_string()),
        Ok(v) => {
            let fv = g(|| match serde_json::from_value::<Box<RawValue>>(v.clone()) { Ok(x) => hexf(x.get().as_bytes()), Err(e) => show_err(&e) });
            let fvr = g(|| match <Box<RawValue> as Deserialize>::deserialize(v) { Ok(x) => hexf(x.get().as_bytes()), Err(e) => show_err(&e) });
            let ts = g(|| serde_json::to_string(v).map(|t| hexf(t.as_bytes())).unwrap_or("ERR".into()));
            let rt = g(|| match serde_json::from_value::<Box<RawValue>>(v.clone()) {
                Ok(x) => match serde_json::to_value(&x) { Ok(v2) => if &v2 == v && enc(&v2) == enc(v) { "=".into() } else { format!("V{}", enc(&v2)) }, Err(e) => show_err(&e) },
                Err(e) => show_err(&e) });
            (fv, fvr, ts, rt)
        }
    };
    let o = format!("{}|{}|{}|{}|{}|{}|{}", cap, tv, pv, fv, fvr, ts, rt);
    let class = if tv.starts_with('V') { "value" } else if tv == "-" { "nocapture" } else { "tverr" };
    sink.case("rawconv", &[cfg, &hexf(b), &table], &o, &format!("rawconv:{}:{}", tag, class), b.len() > 1);
}

pub fn run_conv(sink: &mut Sink, thorough: bool, seed: u64) {
    let mut r = Rng::new(seed ^ 0x5eed_c0);
    let cfg = cfg_tag();
    for s in [" 1 ", "\n[1, 2]\t", "  \"a\\u00e9\"  ", "{\"a\" : [ ] , \"a\":{\"b\" : 1.5e3}}", " 1 2", "1e999", "-0", "0.1", "1E2", "18446744073709551616", "\"\\ud800\"", "\"\\ud83d\\ude00\"",
              "{\"b\":1,\"a\":2}", "[1.0,2.50,-0.0,1e-7]", "null", "true", "[]", "{}", "\"\"",
              "[[[[[[[[[[[[[[[[[[[[[[[[[[[[[[[[[[[[[[[[[[[[[[[[[[[[[[[[[[[[[[[[[[[[[[[[[[[[[[[[[[[[[[[[[[[[[[[[[[[[[[[[[[[[[[[[[[[[[[[[[[[[[[[[[[[[[[[[[1]]]]]]]]]]]]]]]]]]]]]]]]]]]]]]]]]]]]]]]]]]]]]]]]]]]]]]]]]]]]]]]]]]]]]]]]]]]]]]]]]]]]]]]]]]]]]]]]]]]]]]]]]]]]]]]]]]]]]]]]]]]]]]]]]]]]]]]]]]]]]]"] {
        emit_conv(sink, &cfg, s.as_bytes(), "corpus");
    }
    let toks = tokens();
    for len in 1..=(if thorough { 3 } else { 2 }) {
        let mut inputs: Vec<Vec<u8>> = vec![];
        exhaustive(&toks, len, 0, 1, |b| inputs.push(b.to_vec()));
        for b in inputs { emit_conv(sink, &cfg, &b, &format!("exh{}", len)); }
    }
    for _ in 0..(if thorough { 8000 } else { 800 }) {
        let d = gen_doc(&mut r, 3);
        emit_conv(sink, &cfg, &d, "doc");
        let m = mutate(&d, &mut r);
        emit_conv(sink, &cfg, &m, "mut");
    }
}

pub fn run(sink: &mut Sink, thorough: bool, seed: u64) { run_fld(sink, thorough, seed); run_conv(sink, thorough, seed); }

pub fn replay(sink: &mut Sink, toks: &[&str]) {
    match toks[0] {
        "rawfld" if toks.len() >= 4 => {
            let b = unhex(toks[3]);
            sink.case("rawfld", &[&cfg_tag(), toks[2], toks[3]], &fld_obs(toks[2], &b, vec![1]), "replay", true);
        }
        "rawconv" if toks.len() >= 3 => emit_conv(sink, &cfg_tag(), &unhex(toks[2]), "replay"),
        _ => eprintln!("cannot replay {:?}", toks),
    }
}
