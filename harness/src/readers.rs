//! C09 / C05 — the two REAL string scanners of `src/read.rs`, called directly.
//!
//! `serde_json::de::{Read, SliceRead, StrRead, IoRead}` are public; the trait is sealed (cannot be implemented
//! outside the crate) and its methods are `#[doc(hidden)]`, but they can be CALLED. So the string functions are
//! driven at the method level, not through a `Deserializer`:
//!
//! * `rd <fn> <input> <start> => <str>|<slice>|<reader>` — on `StrRead::new(input)` (`-` when the input is not UTF-8),
//!   `SliceRead::new(input)` and `IoRead::new(chunked reader over input)`, after `start` calls of `next()`:
//!   fn `S` = `parse_str(&mut scratch)`, `R` = `parse_str_raw(&mut scratch)`, `I` = `ignore_str()`,
//!   `H` = `decode_hex_escape()`. Observation per source:
//!   `OK:<bytes>:<B<off>|C>:<byte_offset>` (S, R; `B<off>` = `Reference::Borrowed` = the returned pointer lies inside
//!   the input at offset `off`; `C` = `Reference::Copied` = it points into the scratch space), `OK:<byte_offset>` (I),
//!   `OK:<u16>:<byte_offset>` (H), `E:<msg>:<cat>:<line>:<col>:<byte_offset>`.
//! * `rs <cfg> <target> <input> => <str>|<slice>|<reader>` — the same literals end to end:
//!   `Deserializer::from_str / from_slice / from_reader` + `String` (`S`), `&str` (`R`: succeeds iff borrowed),
//!   `ByteBuf` (`B`), `IgnoredAny` (`I`) `::deserialize` (no `end()`): `OK:<bytes>`, `OK` (I), `NB` (`&str` target,
//!   not borrowed: `invalid type … expected a borrowed string`), `E:<msg>:<cat>:<line>:<col>`.
//! * `rsa <cfg> <ctx> <doc> <p> => <str>|<slice>|<reader>` — the SELF-DESCRIBING route: the literal whose body starts at `doc[p]` is
//!   requested with `deserialize_any` by a custom `Visitor` that tells `visit_borrowed_str` (`B<off>`: the pointer lies inside the
//!   input at offset `off`) from `visit_str` (`C`) and `visit_string` (`S`): `OK:<bytes>:<B<off>|C|S>`. `ctx`: `T` top-level value,
//!   `A` array element, `K` map key, `V` map value (custom container visitors), `U` / `UA` the derived
//!   `#[serde(untagged)] enum Untagged<'a> { Num(u64), Text(&'a str) }` at top level / as `Vec<Untagged>` (serde buffers into
//!   `Content` through `deserialize_any`; `Text` exists only if the string arrived borrowed): `OK:<bytes>:B<off>` or the error.
use crate::common::*;
use crate::obs::*;
use crate::gen::chunk_sizes;
use serde::Deserialize;
use serde_json::de::{IoRead, Read, SliceRead, StrRead};
use std::panic::{catch_unwind, AssertUnwindSafe};

fn err_obs(e: &serde_json::Error, off: usize) -> String { format!("{}:{}", show_err(e), off) }

/// where does `p` point: inside the input (borrowed) or elsewhere (the scratch space)
fn refclass(p: *const u8, input: &[u8]) -> String {
    let (a, b, q) = (input.as_ptr() as usize, input.as_ptr() as usize + input.len(), p as usize);
    if q >= a && q <= b { format!("B{}", q - a) } else { "C".to_string() }
}

fn call<'de, R: Read<'de>>(mut rd: R, f: &str, start: usize, input: &[u8]) -> String {
    for _ in 0..start { if rd.next().is_err() { return "IOERR".into(); } }
    let mut scratch: Vec<u8> = Vec::new();
    match f {
        "S" => {
            // the `Reference` (private type, used through `Deref`) borrows the reader and the scratch space
            let r = match rd.parse_str(&mut scratch) {
                Ok(s) => { let s: &str = &s; Ok((hexf(s.as_bytes()), refclass(s.as_ptr(), input))) }
                Err(e) => Err(e),
            };
            match r { Ok((h, c)) => format!("OK:{}:{}:{}", h, c, rd.byte_offset()), Err(e) => err_obs(&e, rd.byte_offset()) }
        }
        "R" => {
            let r = match rd.parse_str_raw(&mut scratch) {
                Ok(s) => { let s: &[u8] = &s; Ok((hexf(s), refclass(s.as_ptr(), input))) }
                Err(e) => Err(e),
            };
            match r { Ok((h, c)) => format!("OK:{}:{}:{}", h, c, rd.byte_offset()), Err(e) => err_obs(&e, rd.byte_offset()) }
        }
        "I" => match rd.ignore_str() { Ok(()) => format!("OK:{}", rd.byte_offset()), Err(e) => err_obs(&e, rd.byte_offset()) },
        _ => match rd.decode_hex_escape() { Ok(n) => format!("OK:{}:{}", n, rd.byte_offset()), Err(e) => err_obs(&e, rd.byte_offset()) },
    }
}

fn obs_rd(f: &str, input: &[u8], start: usize, sizes: Vec<usize>) -> String {
    let g = |x: Result<String, Box<dyn std::any::Any + Send>>| x.unwrap_or_else(|_| "PANIC".to_string());
    let s = match std::str::from_utf8(input) {
        Ok(t) => g(catch_unwind(AssertUnwindSafe(|| call(StrRead::new(t), f, start, input)))),
        Err(_) => "-".to_string(),
    };
    let b = g(catch_unwind(AssertUnwindSafe(|| call(SliceRead::new(input), f, start, input))));
    let r = g(catch_unwind(AssertUnwindSafe(|| call(IoRead::new(Chunked::new(input, sizes)), f, start, input))));
    format!("{}|{}|{}", s, b, r)
}

fn obs_rs(target: &str, input: &[u8], sizes: Vec<usize>) -> String {
    fn fin<T>(r: Result<T, serde_json::Error>, show: impl Fn(T) -> String, borrowed_target: bool) -> String {
        match r {
            Ok(v) => show(v),
            Err(e) => if borrowed_target && e.to_string().starts_with("invalid type: string") { "NB".into() } else { show_err(&e) },
        }
    }
    macro_rules! go { ($de:expr) => {{
        let mut de = $de;
        match target {
            "S" => fin(String::deserialize(&mut de), |s| format!("OK:{}", hexf(s.as_bytes())), false),
            "B" => fin(serde_bytes::ByteBuf::deserialize(&mut de), |b| format!("OK:{}", hexf(&b)), false),
            _ => fin(serde::de::IgnoredAny::deserialize(&mut de), |_| "OK".to_string(), false),
        }
    }}}
    let g = |x: Result<String, Box<dyn std::any::Any + Send>>| x.unwrap_or_else(|_| "PANIC".to_string());
    if target == "R" {
        // `&str` borrows from the input: only str and slice sources can produce one
        let s = match std::str::from_utf8(input) {
            Ok(t) => g(catch_unwind(AssertUnwindSafe(|| { let mut de = serde_json::Deserializer::from_str(t); fin(<&str>::deserialize(&mut de), |s| format!("OK:{}", hexf(s.as_bytes())), true) }))),
            Err(_) => "-".to_string(),
        };
        let b = g(catch_unwind(AssertUnwindSafe(|| { let mut de = serde_json::Deserializer::from_slice(input); fin(<&str>::deserialize(&mut de), |s| format!("OK:{}", hexf(s.as_bytes())), true) })));
        return format!("{}|{}|-", s, b);
    }
    let s = match std::str::from_utf8(input) {
        Ok(t) => g(catch_unwind(AssertUnwindSafe(|| go!(serde_json::Deserializer::from_str(t))))),
        Err(_) => "-".to_string(),
    };
    let b = g(catch_unwind(AssertUnwindSafe(|| go!(serde_json::Deserializer::from_slice(input)))));
    let r = g(catch_unwind(AssertUnwindSafe(|| go!(serde_json::Deserializer::from_reader(Chunked::new(input, sizes))))));
    format!("{}|{}|{}", s, b, r)
}

// ---------------------------------------------------------------- the self-describing route (`deserialize_any`)

/// what a visitor was handed
enum Seen { Borrowed(usize, Vec<u8>), Transient(Vec<u8>), Owned(Vec<u8>), Other }
struct Probe(Seen);
struct ProbeVisitor;
impl<'de> serde::de::Visitor<'de> for ProbeVisitor {
    type Value = Seen;
    fn expecting(&self, f: &mut std::fmt::Formatter) -> std::fmt::Result { f.write_str("anything") }
    fn visit_borrowed_str<E: serde::de::Error>(self, v: &'de str) -> Result<Seen, E> { Ok(Seen::Borrowed(v.as_ptr() as usize, v.as_bytes().to_vec())) }
    fn visit_str<E: serde::de::Error>(self, v: &str) -> Result<Seen, E> { Ok(Seen::Transient(v.as_bytes().to_vec())) }
    fn visit_string<E: serde::de::Error>(self, v: String) -> Result<Seen, E> { Ok(Seen::Owned(v.into_bytes())) }
    fn visit_unit<E: serde::de::Error>(self) -> Result<Seen, E> { Ok(Seen::Other) }
    fn visit_bool<E: serde::de::Error>(self, _: bool) -> Result<Seen, E> { Ok(Seen::Other) }
    fn visit_u64<E: serde::de::Error>(self, _: u64) -> Result<Seen, E> { Ok(Seen::Other) }
    fn visit_i64<E: serde::de::Error>(self, _: i64) -> Result<Seen, E> { Ok(Seen::Other) }
    fn visit_f64<E: serde::de::Error>(self, _: f64) -> Result<Seen, E> { Ok(Seen::Other) }
}
impl<'de> Deserialize<'de> for Probe {
    fn deserialize<D: serde::Deserializer<'de>>(d: D) -> Result<Self, D::Error> { d.deserialize_any(ProbeVisitor).map(Probe) }
}
fn first_string(a: Seen, b: Seen) -> Seen { if matches!(a, Seen::Other) { b } else { a } }
/// `[…]`: every element through `Probe`; the first string seen
struct ProbeSeq(Seen);
impl<'de> Deserialize<'de> for ProbeSeq {
    fn deserialize<D: serde::Deserializer<'de>>(d: D) -> Result<Self, D::Error> {
        struct V;
        impl<'de> serde::de::Visitor<'de> for V {
            type Value = Seen;
            fn expecting(&self, f: &mut std::fmt::Formatter) -> std::fmt::Result { f.write_str("an array") }
            fn visit_seq<A: serde::de::SeqAccess<'de>>(self, mut a: A) -> Result<Seen, A::Error> {
                let mut r = Seen::Other;
                while let Some(Probe(x)) = a.next_element::<Probe>()? { r = first_string(r, x); }
                Ok(r)
            }
        }
        d.deserialize_any(V).map(ProbeSeq)
    }
}
/// `{…}`: every key (`KEYS = true`) or every value through `Probe`; the first string seen
struct ProbeMap<const KEYS: bool>(Seen);
impl<'de, const KEYS: bool> Deserialize<'de> for ProbeMap<KEYS> {
    fn deserialize<D: serde::Deserializer<'de>>(d: D) -> Result<Self, D::Error> {
        struct V<const KEYS: bool>;
        impl<'de, const KEYS: bool> serde::de::Visitor<'de> for V<KEYS> {
            type Value = Seen;
            fn expecting(&self, f: &mut std::fmt::Formatter) -> std::fmt::Result { f.write_str("an object") }
            fn visit_map<A: serde::de::MapAccess<'de>>(self, mut a: A) -> Result<Seen, A::Error> {
                let mut r = Seen::Other;
                if KEYS { while let Some(Probe(x)) = a.next_key::<Probe>()? { let _ = a.next_value::<serde::de::IgnoredAny>()?; r = first_string(r, x); } }
                else { while let Some(_) = a.next_key::<serde::de::IgnoredAny>()? { let Probe(x) = a.next_value::<Probe>()?; r = first_string(r, x); } }
                Ok(r)
            }
        }
        d.deserialize_any(V::<KEYS>).map(ProbeMap)
    }
}
#[derive(Deserialize, Debug, PartialEq)]
#[serde(untagged)]
enum Untagged<'a> { Num(u64), Text(&'a str) }

fn show_seen(x: Seen, input: &[u8]) -> String {
    match x {
        Seen::Borrowed(p, b) => format!("OK:{}:{}", hexf(&b), refclass(p as *const u8, input)),
        Seen::Transient(b) => format!("OK:{}:C", hexf(&b)),
        Seen::Owned(b) => format!("OK:{}:S", hexf(&b)),
        Seen::Other => "OK:other".into(),
    }
}
fn show_untagged(xs: &[Untagged], input: &[u8]) -> String {
    // the first `Text` member (it is a `&'de str`: borrowed by type)
    for x in xs { if let Untagged::Text(s) = x { return format!("OK:{}:{}", hexf(s.as_bytes()), refclass(s.as_ptr(), input)); } }
    "OK:other".into()
}

fn obs_rsa(ctx: &str, input: &[u8], sizes: Vec<usize>) -> String {
    macro_rules! go { ($de:expr) => {{
        let mut de = $de;
        let r: Result<String, serde_json::Error> = match ctx {
            "T" => Probe::deserialize(&mut de).map(|x| show_seen(x.0, input)),
            "A" => ProbeSeq::deserialize(&mut de).map(|x| show_seen(x.0, input)),
            "K" => ProbeMap::<true>::deserialize(&mut de).map(|x| show_seen(x.0, input)),
            "V" => ProbeMap::<false>::deserialize(&mut de).map(|x| show_seen(x.0, input)),
            "U" => Untagged::deserialize(&mut de).map(|x| show_untagged(&[x], input)),
            _ => Vec::<Untagged>::deserialize(&mut de).map(|x| show_untagged(&x, input)),
        };
        match r { Ok(s) => s, Err(e) => show_err(&e) }
    }}}
    let g = |x: Result<String, Box<dyn std::any::Any + Send>>| x.unwrap_or_else(|_| "PANIC".to_string());
    let s = match std::str::from_utf8(input) {
        Ok(t) => g(catch_unwind(AssertUnwindSafe(|| go!(serde_json::Deserializer::from_str(t))))),
        Err(_) => "-".to_string(),
    };
    let b = g(catch_unwind(AssertUnwindSafe(|| go!(serde_json::Deserializer::from_slice(input)))));
    let r = g(catch_unwind(AssertUnwindSafe(|| go!(serde_json::Deserializer::from_reader(Chunked::new(input, sizes))))));
    format!("{}|{}|{}", s, b, r)
}

fn emit_rsa(sink: &mut Sink, r: &mut Rng, cfg: &str, ctx: &str, doc: &[u8], p: usize, tag: &str) {
    let o = obs_rsa(ctx, doc, chunk_sizes(r));
    let m = o.split('|').nth(1).unwrap_or("");
    let cls = if m.starts_with("OK") { if m.contains(":B") { "borrowed" } else if m.ends_with(":C") { "copied" } else if m.ends_with(":S") { "owned" } else { "other" } }
              else if m == "PANIC" { "panic" } else { "err" };
    sink.case("rsa", &[cfg, ctx, &hexf(doc), &p.to_string()], &o, &format!("rsa-{}:{}:{}", ctx, tag, cls), true);
}

/// the literal `lit` (starts with `"`) through the self-describing route: alone (`T`, `U`: any input), and — when it is one complete
/// well-formed literal — as an array element, map key and map value, tightly and with whitespace / neighbours around it
fn lit_any(sink: &mut Sink, r: &mut Rng, cfg: &str, lit: &[u8], tag: &str) {
    emit_rsa(sink, r, cfg, "T", lit, 1, tag);
    emit_rsa(sink, r, cfg, "U", lit, 1, tag);
    if serde_json::from_slice::<String>(lit).is_err() { return; }
    let wrap = |pre: &[u8], post: &[u8]| -> (Vec<u8>, usize) { ([pre, lit, post].concat(), pre.len() + 1) };
    let loose = r.chance(1, 3);
    let (d, p) = if loose { wrap(b" [ null , ", b" , 2 ] ") } else { wrap(b"[", b"]") };
    emit_rsa(sink, r, cfg, "A", &d, p, tag);
    let (d, p) = if loose { wrap(b"{ ", b" : 0 , \"z\\n\":[] }") } else { wrap(b"{", b":0}") };
    emit_rsa(sink, r, cfg, "K", &d, p, tag);
    let (d, p) = if loose { wrap(b"{\"a\\u0062\" : 1, \"k\" : ", b" }") } else { wrap(b"{\"k\":", b"}") };
    emit_rsa(sink, r, cfg, "V", &d, p, tag);
    let (d, p) = if loose { wrap(b" [ ", b" , 7 ]") } else { wrap(b"[7,", b"]") };
    emit_rsa(sink, r, cfg, "UA", &d, p, tag);
}

fn class(o: &str) -> String {
    let m = o.split('|').nth(1).unwrap_or("");
    if m.starts_with("OK") { if m.contains(":B") { "ok-borrowed".into() } else { "ok".into() } }
    else if m == "NB" { "not-borrowed".into() }
    else if m == "PANIC" { "panic".into() }
    else {
        let msg = m.split(':').nth(1).map(unhex).unwrap_or_default();
        let t = String::from_utf8_lossy(&msg).to_string();
        let w: Vec<&str> = t.split(' ').take(3).collect();
        format!("err-{}", w.join("_"))
    }
}

fn plain(b: u8) -> bool { b >= 0x20 && b < 0x80 && b != b'"' && b != b'\\' }

fn emit_rd(sink: &mut Sink, r: &mut Rng, f: &str, input: &[u8], start: usize, tag: &str) {
    let o = obs_rd(f, input, start, chunk_sizes(r));
    let nt = input[start.min(input.len())..].iter().any(|&b| !plain(b)) || !o.split('|').nth(1).unwrap_or("").starts_with("OK");
    sink.case("rd", &[f, &hexf(input), &start.to_string()], &o, &format!("rd-{}:{}:{}", f, tag, class(&o)), nt);
}

fn emit_rs(sink: &mut Sink, r: &mut Rng, cfg: &str, target: &str, input: &[u8], tag: &str) {
    let o = obs_rs(target, input, chunk_sizes(r));
    sink.case("rs", &[cfg, target, &hexf(input)], &o, &format!("rs-{}:{}:{}", target, tag, class(&o)), input.iter().any(|&b| !plain(b) && b != b'"'));
    // every literal read into ByteBuf also as a bytes-typed object KEY (op rsk, harness/src/keys.rs)
    if target == "B" { crate::keys::emit_rsk(sink, r, cfg, input, tag); }
}

/// one literal (`input[start-1] == '"'`): the three string functions at `start`, and the end-to-end targets
fn lit(sink: &mut Sink, r: &mut Rng, cfg: &str, input: &[u8], start: usize, tag: &str, e2e: bool) {
    for f in ["S", "R", "I"] { emit_rd(sink, r, f, input, start, tag); }
    if e2e { for t in ["S", "R", "B", "I"] { emit_rs(sink, r, cfg, t, input, tag); } }
    if e2e && start == 1 { lit_any(sink, r, cfg, input, tag); }
}

fn quoted(body: &[u8]) -> Vec<u8> { let mut v = vec![b'"']; v.extend_from_slice(body); v.push(b'"'); v }

pub fn replay(sink: &mut Sink, toks: &[&str]) {
    match toks[0] {
        "rd" if toks.len() >= 4 => {
            let inp = unhex(toks[2]); let st: usize = toks[3].parse().unwrap_or(0);
            let o = obs_rd(toks[1], &inp, st, vec![1]);
            sink.case("rd", &[toks[1], toks[2], toks[3]], &o, "replay", true);
        }
        "rs" if toks.len() >= 4 => {
            let inp = unhex(toks[3]);
            let o = obs_rs(toks[2], &inp, vec![1]);
            sink.case("rs", &[&cfg_tag(), toks[2], toks[3]], &o, "replay", true);
        }
        "rsa" if toks.len() >= 5 => {
            let inp = unhex(toks[3]);
            let o = obs_rsa(toks[2], &inp, vec![1]);
            sink.case("rsa", &[&cfg_tag(), toks[2], toks[3], toks[4]], &o, "replay", true);
        }
        _ => eprintln!("cannot replay {:?}", toks),
    }
}

pub fn run(sink: &mut Sink, thorough: bool, seed: u64) {
    let mut r = Rng::new(seed ^ 0x5eade5);
    let cfg = cfg_tag();
    let r = &mut r;
    // ---- every escape family of c01::strings(), as bare literals
    let bounds: [u32; 16] = [0x0000, 0x001f, 0x0020, 0x007f, 0x0080, 0x07ff, 0x0800, 0xd7ff, 0xd800, 0xd801, 0xdbff, 0xdc00, 0xdc01, 0xdfff, 0xe000, 0xffff];
    for a in bounds.iter() {
        lit(sink, r, &cfg, format!("\"\\u{:04x}\"", a).as_bytes(), 1, "uni1", true);
        lit(sink, r, &cfg, format!("\"\\u{:04X}x\"", a).as_bytes(), 1, "uni1", true);
        lit(sink, r, &cfg, format!("\"\\u{:04x}\\n\"", a).as_bytes(), 1, "uni1-esc", true);
        lit(sink, r, &cfg, format!("\"\\u{:04x}\\q\"", a).as_bytes(), 1, "uni1-badesc", true);
        lit(sink, r, &cfg, format!("\"\\u{:04x}\\", a).as_bytes(), 1, "uni1-cut", false);
        for b in bounds.iter() {
            lit(sink, r, &cfg, format!("\"\\u{:04x}\\u{:04X}\"", a, b).as_bytes(), 1, "uni2", true);
            lit(sink, r, &cfg, format!("\"a\\u{:04x}\\u{:04x}z\"", a, b).as_bytes(), 1, "uni2", false);
            if *a >= 0xd800 && *a <= 0xdbff {
                for c in [0xd800u32, 0xdc00, 0x0041] { lit(sink, r, &cfg, format!("\"\\u{:04x}\\u{:04x}\\u{:04x}\"", a, b, c).as_bytes(), 1, "uni3", false); }
            }
        }
    }
    for plane in 1..=16u32 {
        for off in [0u32, 1, 0x7fff, 0xfffe, 0xffff] {
            let cp = plane * 0x10000 + off; let v = cp - 0x10000;
            let (hi, lo) = (0xd800 + (v >> 10), 0xdc00 + (v & 0x3ff));
            lit(sink, r, &cfg, format!("\"\\u{:04x}\\u{:04X}\"", hi, lo).as_bytes(), 1, "pair", true);
        }
    }
    for _ in 0..(if thorough { 20000 } else { 1500 }) {
        let hi = 0xd800 + r.below(0x400) as u32; let lo = 0xdc00 + r.below(0x400) as u32;
        lit(sink, r, &cfg, format!("\"\\u{:04x}\\u{:04x}\"", hi, lo).as_bytes(), 1, "pair-rand", false);
    }
    // ---- all 256 bytes at every position class
    for c in 0..=255u8 {
        let pats: [Vec<u8>; 12] = [
            vec![b'"', c, b'"'], vec![b'"', b'a', c, b'b', b'"'], vec![b'"', b'\\', c, b'"'], vec![b'"', b'\\', c],
            [b"\"\\u".as_ref(), &[c], b"041\""].concat(), [b"\"\\u0".as_ref(), &[c], b"41\""].concat(),
            [b"\"\\u00".as_ref(), &[c], b"1\""].concat(), [b"\"\\u004".as_ref(), &[c], b"\""].concat(),
            [b"\"\\ud83d".as_ref(), &[c], b"\""].concat(), [b"\"\\ud83d\\".as_ref(), &[c], b"\""].concat(),
            [b"\"\\ud83d\\u".as_ref(), &[c], b"e00\""].concat(), [b"\"\\ud83d\\ude0".as_ref(), &[c], b"\""].concat(),
        ];
        for (k, p) in pats.iter().enumerate() { lit(sink, r, &cfg, p, 1, &format!("byte{}", k), k < 3 || thorough); }
        // the same byte at the end of the input (no closing quote)
        for p in [vec![b'"', c], vec![b'"', b'a', b'b', c]] { lit(sink, r, &cfg, &p, 1, "byte-end", false); }
    }
    // ---- `\u` groups cut at every length before the end of input, with and without a quote among the last bytes
    for full in [&b"\"\\u00e9\""[..], b"\"ab\\u00e9\"", b"\"\\ud83d\\ude00\"", b"\"\\ud83d\\u0041\"", b"\"\\n\\u12\"\"", b"\"\\u1\"23\"", b"\"\\u\"\"\"\"\"",
                 b"\"\\ud83d\\u\"\"\"\"", b"\"\\ud83d\\ude\"", b"\"\\u12g4\"", b"\"\\u12\n4\""] {
        for cut in 1..=full.len() {
            lit(sink, r, &cfg, &full[..cut], 1, "ucut", true);
            // decode_hex_escape called directly wherever a `\u` has just been read
            for i in 2..cut { if full[i - 1] == b'u' && full[i - 2] == b'\\' { emit_rd(sink, r, "H", &full[..cut], i, "ucut"); } }
        }
    }
    for g in [&b"0041"[..], b"00e9", b"FFFF", b"d83d", b"12g4", b"\"\"\"\"", b"1\"34", b"\xff\xff\xff\xff", b"12", b"", b"abc", b"abcde"] {
        for pre in 0..4usize { let mut v = vec![b' '; pre]; v.extend_from_slice(g); emit_rd(sink, r, "H", &v, pre, "hex"); }
    }
    // ---- literals around 8-byte chunk boundaries: each special byte at every offset of bodies of every length, after 0..8 spaces
    let specials: [u8; 8] = [b'"', b'\\', 0x00, 0x0a, 0x1f, 0x7f, 0x80, 0xc3];
    let maxlen = if thorough { 40 } else { 26 };
    for len in 0..=maxlen {
        for prefix in 0..=8usize {
            if !thorough && len > 17 && prefix % 3 != 0 { continue; }
            let mut base = vec![b' '; prefix]; base.push(b'"');
            let body: Vec<u8> = (0..len).map(|k| b"az ~q0"[(k + prefix) % 6]).collect();
            let mut v = base.clone(); v.extend_from_slice(&body); v.push(b'"');
            lit(sink, r, &cfg, &v, prefix + 1, "chunk-plain", prefix == 0);
            let mut v = base.clone(); v.extend_from_slice(&body);
            lit(sink, r, &cfg, &v, prefix + 1, "chunk-open", false);
            for off in 0..len {
                for sp in specials {
                    if !thorough && (off + prefix + sp as usize) % 3 != 0 && len > 9 { continue; }
                    let mut b2 = body.clone(); b2[off] = sp;
                    if sp == 0xc3 && off + 1 < len { b2[off + 1] = 0xa9; }
                    let mut v = base.clone(); v.extend_from_slice(&b2); v.push(b'"'); v.extend_from_slice(b"tail");
                    lit(sink, r, &cfg, &v, prefix + 1, "chunk-special", false);
                }
            }
        }
    }
    // ---- long runs
    for n in [63usize, 64, 65, 255, 256, 1000, 4097] {
        if !thorough && n > 1000 { continue; }   // the list-based models are quadratic: the longest runs are for the thorough tier
        let body: Vec<u8> = (0..n).map(|k| if k % 17 == 3 { 0xc3 } else if k % 17 == 4 { 0xa9 } else { b'a' + (k % 26) as u8 }).collect();
        lit(sink, r, &cfg, &quoted(&body), 1, "long", true);
        let mut e = body.clone(); e.extend_from_slice(b"\\n"); e.extend_from_slice(&body);
        lit(sink, r, &cfg, &quoted(&e), 1, "long-esc", true);
        let mut c = body.clone(); c.push(0x01); lit(sink, r, &cfg, &quoted(&c), 1, "long-ctrl", false);
        lit(sink, r, &cfg, &[&b"\""[..], &body].concat(), 1, "long-open", false);
        if !thorough && n > 256 { continue; }
        let many: Vec<u8> = (0..n).flat_map(|k| format!("\\u{:04x}", 0x20 + (k * 37) % 0xd000).into_bytes()).collect();
        lit(sink, r, &cfg, &quoted(&many), 1, "long-uni", false);
    }
    // ---- invalid UTF-8 of every class, raw, alone / after text / after an escape / before an escape
    let bad: [&[u8]; 16] = [b"\x80", b"\xbf", b"\xc0\x80", b"\xc1\xbf", b"\xc3", b"\xe0\x80\x80", b"\xe0\x9f\xbf", b"\xe2\x82", b"\xed\xa0\x80", b"\xed\xbf\xbf",
        b"\xf0\x80\x80\x80", b"\xf0\x9f\x98", b"\xf4\x90\x80\x80", b"\xf5\x80\x80\x80", b"\xff", b"\xc3\x28"];
    let good: [&[u8]; 6] = ["é".as_bytes(), "€".as_bytes(), "😀".as_bytes(), "\u{7ff}".as_bytes(), "\u{ffff}".as_bytes(), "\u{10ffff}".as_bytes()];
    for x in bad.iter().chain(good.iter()) {
        for (k, (pre, post)) in [(&b""[..], &b""[..]), (b"abc", b"def"), (b"\\n", b""), (b"", b"\\u0041"), (b"abcdefgh", b"ijklmnop"), (b"\\ud83d\\ude00", b"x")].iter().enumerate() {
            let body = [*pre, *x, *post].concat();
            lit(sink, r, &cfg, &quoted(&body), 1, &format!("utf8-{}", k), true);
        }
    }
    // ---- random mixtures
    let pool: [&[u8]; 22] = [b"a", b"bc", b" ", b"\\n", b"\\\"", b"\\\\", b"\\/", b"\\u0041", b"\\u00e9", b"\\ud83d\\ude00", b"\\ud83d", b"\\ude00", b"\\u12", b"\\q", b"\x01", b"\n",
        "é".as_bytes(), "😀".as_bytes(), b"\xff", b"\xed\xa0\x80", b"\"", b"\\"];
    for _ in 0..(if thorough { 60000 } else { 4000 }) {
        let n = if r.chance(1, 10) { 10 + r.below(30) } else { r.below(8) };
        let prefix = r.below(9);
        let mut v = vec![b' '; prefix]; v.push(b'"');
        for _ in 0..n { let k = if r.chance(1, 2) { r.below(4) } else { r.below(pool.len()) }; v.extend_from_slice(pool[k]); }
        if r.chance(3, 4) { v.push(b'"'); }
        if r.chance(1, 2) { v.extend_from_slice(b" ,1"); }
        let e2e = prefix == 0 && r.chance(1, 4);
        lit(sink, r, &cfg, &v, prefix + 1, "rand", e2e);
    }
}
