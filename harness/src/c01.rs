//! C01 (and shared with C02/C09–C11/C14): parse every input into Value and IgnoredAny from all sources.
use crate::common::*;
use crate::gen::*;
use crate::obs::*;

fn classify(o: &str) -> &'static str {
    // tag from the slice outcome (middle field)
    let m = o.split('|').nth(1).unwrap_or("");
    if m.starts_with('V') || m == "U" { "ok" } else if m.contains(":eof:") { "err-eof" } else if m == "PANIC" { "panic" } else { "err-syntax" }
}

pub fn emit(sink: &mut Sink, cfg: &str, b: &[u8], r: &mut Rng, tag: &str) {
    let h = hexf(b);
    let sizes = chunk_sizes(r);
    let ov = value_all(b, sizes.clone());
    let t = format!("{}:value:{}", tag, classify(&ov));
    sink.case("pv", &[cfg, &h], &ov, &t, b.len() > 1);
    let oi = ignored_all(b, sizes);
    let t = format!("{}:ignored:{}", tag, classify(&oi));
    sink.case("pi", &[cfg, &h], &oi, &t, b.len() > 1);
}

pub fn replay(sink: &mut Sink, toks: &[&str]) {
    if toks.len() < 3 { return; }
    let b = unhex(toks[2]);
    let cfg = cfg_tag();
    let o = if toks[0] == "pv" { value_all(&b, vec![1]) } else { ignored_all(&b, vec![1]) };
    sink.case(toks[0], &[&cfg, toks[2]], &o, "replay", true);
}

pub fn depth_profiles(sink: &mut Sink, cfg: &str, r: &mut Rng) {
    for d in [1usize, 2, 126, 127, 128, 129, 130] {
        for mix in 0..4 {
            let mut open = vec![]; let mut close = vec![];
            for i in 0..d {
                let obj = match mix { 0 => false, 1 => true, 2 => i % 2 == 0, _ => r.chance(1, 2) };
                if obj { open.extend_from_slice(b"{\"a\":"); close.insert(0, b'}'); } else { open.push(b'['); close.insert(0, b']'); }
            }
            for inner in [&b"1"[..], b"", b"[]", b"{}"] {
                let mut doc = open.clone(); doc.extend_from_slice(inner); doc.extend_from_slice(&close);
                emit(sink, cfg, &doc, r, "depth");
            }
        }
    }
}

/// C14: pathological sizes; only "terminates without panicking, with the expected class" is observed
pub fn big(sink: &mut Sink, cfg: &str) {
    fn class<T>(r: Result<T, serde_json::Error>) -> String { match r { Ok(_) => "ok".into(), Err(e) => format!("err:{}", cat_name(&e)) } }
    let n = 1_000_000usize;
    let mut cases: Vec<(&str, Vec<u8>)> = vec![];
    cases.push(("deep-array-open", vec![b'['; n]));
    let mut d = vec![b'['; n]; d.extend(vec![b']'; n]); cases.push(("deep-array-balanced", d));
    let mut d: Vec<u8> = vec![]; for _ in 0..200_000 { d.extend_from_slice(b"{\"a\":"); } cases.push(("deep-object-open", d));
    let mut d = vec![b'"']; d.extend(vec![b'a'; 4 * n]); d.push(b'"'); cases.push(("long-string", d));
    let mut d = vec![b'"']; for _ in 0..n { d.extend_from_slice(b"\\u00e9"); } d.push(b'"'); cases.push(("long-escapes", d));
    let mut d = vec![b'1']; d.extend(vec![b'0'; n]); cases.push(("long-integer", d));
    let mut d = b"0.".to_vec(); d.extend(vec![b'0'; n]); d.push(b'1'); cases.push(("long-fraction", d));
    let mut d = b"1e".to_vec(); d.extend(vec![b'9'; n]); cases.push(("huge-exponent", d));
    let mut d = b"1e-".to_vec(); d.extend(vec![b'9'; n]); cases.push(("huge-neg-exponent", d));
    let mut d: Vec<u8> = vec![b'[']; for _ in 0..n { d.extend_from_slice(b"0,"); } d.push(b'0'); d.push(b']'); cases.push(("wide-array", d));
    for (name, data) in cases {
        let d1 = data.clone(); let d2 = data.clone(); let d3 = data.clone();
        let v = std::panic::catch_unwind(move || class(serde_json::from_slice::<serde_json::Value>(&d1))).unwrap_or("PANIC".into());
        let i = std::panic::catch_unwind(move || class(serde_json::from_slice::<serde::de::IgnoredAny>(&d2))).unwrap_or("PANIC".into());
        let rd = std::panic::catch_unwind(move || class(serde_json::from_reader::<_, serde_json::Value>(Chunked::new(&d3, vec![4096])))).unwrap_or("PANIC".into());
        sink.case("big", &[cfg, name], &format!("{}|{}|{}", v, i, rd), &format!("big:{}", name), true);
    }
}

/// string literals: every ordered pair of \uXXXX escapes over the surrogate-class boundaries, lone escapes at the
/// boundaries, every simple escape, both hex cases, pairs at plane boundaries — as values and as object keys
pub fn strings(sink: &mut Sink, cfg: &str, r: &mut Rng, thorough: bool) {
    let bounds: [u32; 16] = [0x0000, 0x001f, 0x0020, 0x007f, 0x0080, 0x07ff, 0x0800, 0xd7ff, 0xd800, 0xd801, 0xdbff, 0xdc00, 0xdc01, 0xdfff, 0xe000, 0xffff];
    for a in bounds.iter() {
        let one = format!("\"\\u{:04x}\"", a);
        emit(sink, cfg, one.as_bytes(), r, "uni1");
        emit(sink, cfg, format!("{{{}:1}}", one).as_bytes(), r, "uni1key");
        emit(sink, cfg, format!("\"\\u{:04X}x\"", a).as_bytes(), r, "uni1");
        for b in bounds.iter() {
            emit(sink, cfg, format!("\"\\u{:04x}\\u{:04X}\"", a, b).as_bytes(), r, "uni2");
            emit(sink, cfg, format!("\"a\\u{:04x}\\u{:04x}z\"", a, b).as_bytes(), r, "uni2");
        }
    }
    // every plane: first, middle and last scalar written as a surrogate pair
    for plane in 1..=16u32 {
        for off in [0u32, 1, 0x7fff, 0xfffe, 0xffff] {
            let cp = plane * 0x10000 + off; let v = cp - 0x10000;
            let (hi, lo) = (0xd800 + (v >> 10), 0xdc00 + (v & 0x3ff));
            emit(sink, cfg, format!("\"\\u{:04x}\\u{:04x}\"", hi, lo).as_bytes(), r, "pair");
            emit(sink, cfg, format!("[\"\\u{:04X}\\u{:04X}\\u{:04x}\\u{:04x}\"]", hi, lo, hi, lo).as_bytes(), r, "pair");
        }
    }
    for c in 0..=255u8 { emit(sink, cfg, &[b'"', b'\\', c, b'"'], r, "esc1"); }
    let n = if thorough { 20000 } else { 2000 };
    for _ in 0..n {
        let hi = 0xd800 + r.below(0x400) as u32; let lo = 0xdc00 + r.below(0x400) as u32;
        emit(sink, cfg, format!("\"\\u{:04x}\\u{:04x}\"", hi, lo).as_bytes(), r, "pair-rand");
    }
}

#[derive(serde::Deserialize)]
#[allow(dead_code)]
enum Nest { A(Box<Nest>), L(Vec<Nest>), S { x: Box<Nest> }, N }

/// C14: typed targets — every mix of arrays and enum wrappers around depth 126..129
pub fn typed_depth(sink: &mut Sink, cfg: &str, r: &mut Rng) {
    for d in [1usize, 2, 50, 126, 127, 128, 129, 140] {
        for mix in 0..6 {
            let mut open = String::new(); let mut close = String::new();
            for i in 0..d {
                let k = match mix { 0 => 0, 1 => 1, 2 => 2, 3 => i % 3, 4 => if i + 1 == d { 1 } else { 0 }, _ => r.below(3) };
                match k { 0 => { open.push_str("{\"L\":["); close.insert_str(0, "]}"); }
                          1 => { open.push_str("{\"A\":"); close.insert(0, '}'); }
                          _ => { open.push_str("{\"S\":{\"x\":"); close.insert_str(0, "}}"); } }
            }
            // containers opened: `[` and `{"A":` count one level, `{"S":{"x":` counts two
            let levels: usize = { let mut n = 0; let b = open.as_bytes(); let mut i = 0; while i < b.len() { if b[i] == b'[' || b[i] == b'{' { n += 1; } i += 1; } n };
            let doc = format!("{}\"N\"{}", open, close);
            // a Vec<Nest> element list needs the enum inside: wrap scalars accordingly
            let o = std::panic::catch_unwind(|| match serde_json::from_str::<Nest>(&doc) { Ok(_) => "ok".to_string(), Err(e) => format!("err:{}", hex(e.to_string().split(" at line").next().unwrap_or("").as_bytes())) }).unwrap_or("PANIC".into());
            sink.case("tdepth", &[cfg, &levels.to_string(), &mix.to_string()], &o, &format!("tdepth:{}", if levels > 127 { "deep" } else { "ok" }), true);
        }
    }
}

/// C14 (unbounded_depth): with the limit disabled deeper documents parse — directly and through a stream
#[cfg(feature = "ud")]
pub fn unbounded(sink: &mut Sink, cfg: &str) {
    use serde::Deserialize;
    for d in [127usize, 128, 129, 200, 1000] {
        let doc = format!("{}{}", "[".repeat(d), "]".repeat(d));
        let run = |mode: &str| -> String {
            let doc = doc.clone(); let mode = mode.to_string();
            std::thread::Builder::new().stack_size(256 << 20).spawn(move || {
                let mut de = serde_json::Deserializer::from_str(&doc);
                if mode != "limited" { de.disable_recursion_limit(); }
                let r = if mode == "stream" { de.into_iter::<serde_json::Value>().next().unwrap_or(Ok(serde_json::Value::Null)).map(|v| { std::mem::forget(v); }) }
                        else { serde_json::Value::deserialize(&mut de).map(|v| { std::mem::forget(v); }) };
                match r { Ok(_) => "ok".to_string(), Err(e) => format!("err:{}", cat_name(&e)) }
            }).unwrap().join().unwrap_or("PANIC".into())
        };
        for mode in ["limited", "direct", "stream"] {
            sink.case("udepth", &[cfg, mode, &d.to_string()], &run(mode), &format!("udepth:{}", mode), true);
        }
    }
}

/// decimal digits (most significant first) of 2^n
fn dec_pow2(n: usize) -> Vec<u8> {
    let mut d: Vec<u8> = vec![1];                       // least significant first
    for _ in 0..n { let mut c = 0u8; for x in d.iter_mut() { let v = *x * 2 + c; *x = v % 10; c = v / 10; } if c > 0 { d.push(c); } }
    d.reverse(); d
}
/// a - b on decimal digit vectors (most significant first), a >= b
fn dec_sub(a: &[u8], b: &[u8]) -> Vec<u8> {
    let mut a: Vec<u8> = a.iter().rev().cloned().collect(); let b: Vec<u8> = b.iter().rev().cloned().collect();
    let mut borrow = 0i16;
    for i in 0..a.len() { let mut v = a[i] as i16 - borrow - if i < b.len() { b[i] as i16 } else { 0 }; if v < 0 { v += 10; borrow = 1; } else { borrow = 0; } a[i] = v as u8; }
    while a.len() > 1 && *a.last().unwrap() == 0 { a.pop(); }
    a.reverse(); a
}
fn dec_add(a: &[u8], b: &[u8]) -> Vec<u8> {
    let a: Vec<u8> = a.iter().rev().cloned().collect(); let b: Vec<u8> = b.iter().rev().cloned().collect();
    let mut o = vec![]; let mut c = 0u8;
    for i in 0..a.len().max(b.len()) { let v = c + if i < a.len() { a[i] } else { 0 } + if i < b.len() { b[i] } else { 0 }; o.push(v % 10); c = v / 10; }
    if c > 0 { o.push(c); }
    o.reverse(); o
}
fn dec_str(d: &[u8]) -> String { d.iter().map(|x| (b'0' + x) as char).collect() }

/// C01 number range (tag `range-band`): literals in and around the band of 2 ulp either side of the rounding threshold
/// 2^1024 - 2^970 (where the default build's answer is not determined by the value: finding C01-default-range-band), in
/// several spellings (digit counts 17..25, decimal point anywhere, leading `0.000`, `e`/`E`/`e+`, 309-digit integers,
/// digits beyond u64) and nesting positions (top level, array element, nested, object value, after other members).
pub fn range_band(sink: &mut Sink, cfg: &str, r: &mut Rng, thorough: bool) { range_band_n(sink, cfg, r, if thorough { 3000 } else { 300 }) }
pub fn range_band_n(sink: &mut Sink, cfg: &str, r: &mut Rng, n: usize) {
    let mut lits: Vec<String> = vec![];
    for l in ["17976931348623156225e289", "1.7976931348623158e308", "179769313486231591e291", "1.7976931348623157e308", "1.7976931348623159e308",
              "17976931348623158e292", "17976931348623157e292", "179769313486231580793e288", "179769313486231580794e288", "1797693134862315807e290",
              "1797693134862315708e290", "1.797693134862315907729e308", "1.797693134862315907730e308", "0.00017976931348623158e312",
              "1797693134862315.8E293", "1.7976931348623158e+308", "17976931348623158000e289", "1.79769313486231580e308", "1e308", "1e309",
              "1.7976931348623155e308", "1.7976931348623161e308", "1.7976931348623163e308", "1.7976931348623164e308", "1.7976931348623153e308",
              "2e308", "9e307", "18e307", "0.18e309"] { lits.push(l.to_string()); }
    // exact integers: T = 2^1024 - 2^970 (the threshold: not finite), T-1 (finite), f64::MAX, MAX+1, 2^1024, 2^1024-1, the band's ends
    let p1024 = dec_pow2(1024); let p970 = dec_pow2(970); let p971 = dec_pow2(971); let p972 = dec_pow2(972); let p965 = dec_pow2(965);
    let t = dec_sub(&p1024, &p970); let one = vec![1u8];
    let max = dec_sub(&p1024, &p971);
    let lo = dec_sub(&t, &p972); let hi = dec_add(&dec_add(&p1024, &p972), &p965);
    for v in [t.clone(), dec_sub(&t, &one), dec_add(&t, &one), max.clone(), dec_add(&max, &one), p1024.clone(), dec_sub(&p1024, &one), dec_add(&p1024, &one),
              lo.clone(), dec_sub(&lo, &one), hi.clone(), dec_sub(&hi, &one)] {
        let d = dec_str(&v);
        lits.push(d.clone());
        lits.push(format!("{}.0", d));
        lits.push(format!("{}.{}e{}", &d[..1], &d[1..], d.len() - 1));
        lits.push(format!("{}e-5", format!("{}00000", d)));
    }
    // random mantissas 1.79769313486231[4-6]…e308 with 17..25 digits, the point anywhere
    for _ in 0..n {
        let k = 17 + r.below(9);
        let mut d = String::from("179769313486231");
        d.push(*r.pick(&['4', '5', '5', '5', '6', '6']));
        while d.len() < k { d.push((b'0' + r.below(10) as u8) as char); }
        let exp = 308isize - (k as isize - 1);
        let e = *r.pick(&["e", "E", "e+"]);
        let lit = match r.below(4) {
            0 => format!("{}{}{}", d, e, exp),
            1 => { let j = 1 + r.below(k - 1); format!("{}.{}{}{}", &d[..j], &d[j..], e, exp + (k - j) as isize) }
            2 => { let z = r.below(4); format!("0.{}{}{}{}", "0".repeat(z), d, e, exp + (k + z) as isize) }
            _ => { let z = 1 + r.below(6); format!("{}{}{}{}", d, "0".repeat(z), e, exp - z as isize) }
        };
        lits.push(lit);
    }
    for (i, l) in lits.iter().enumerate() {
        let l = if r.chance(1, 3) { format!("-{}", l) } else { l.clone() };
        let doc = match i % 6 {
            0 => l.clone(),
            1 => format!("[{}]", l),
            2 => format!("[[1,{}],2]", l),
            3 => format!("{{\"a\":{}}}", l),
            4 => format!(" {{\"a\":1, \"b\":[true, {} ]}} ", l),
            _ => format!("[1e308,{},-0.0]", l),
        };
        emit(sink, cfg, doc.as_bytes(), r, "range-band");
        if i % 6 != 0 && r.chance(1, 4) { emit(sink, cfg, l.as_bytes(), r, "range-band"); }
    }
    // the other end of the range: exponents below -308 (f64_from_parts leaves the POW10 table), subnormals, underflow to zero
    for (i, l) in ["268e-309", "-268e-309", "1e-310", "2.5e-320", "123456789e-325", "5e-324", "-1.5e-315", "2.2250738585072014e-308", "1e-400", "-1e-400",
                   "17976931348623157e-340", "0.000001e-305", "12345678901234567890e-330", "2.4703282292062327e-324", "2.4703282292062329e-324",
                   "9e-617", "1e-616", "7e-310", "0.5e-308", "49e-325"].iter().enumerate() {
        let doc = match i % 4 { 0 => l.to_string(), 1 => format!("[{}]", l), 2 => format!("{{\"a\":[0,{}]}}", l), _ => format!("[1e-5,{} ,1]", l) };
        emit(sink, cfg, doc.as_bytes(), r, "range-tiny");
    }
}

/// Objects keyed by the private tokens (`number::TOKEN`, `raw::TOKEN`): as first key (the crate reads the object as a
/// Number / RawValue), as a later key (an ordinary object), duplicated, spelled with escapes; every kind of value behind
/// it; more members after it; whitespace and newlines around every token (line/column); nested at depth 126–128;
/// every truncation of the short documents (EOF classes). Tag `private-token`.
pub fn private_tokens(sink: &mut Sink, cfg: &str, r: &mut Rng, thorough: bool) {
    const NUM: &str = "$serde_json::private::Number";
    const RAW: &str = "$serde_json::private::RawValue";
    let toks: [&str; 8] = [NUM, RAW, "\\u0024serde_json::private::Number", "$serde_json::private::\\u004eumber",
        "$serde\\u005fjson\\u003a:private::Numbe\\u0072", "$serde_json:\\u003Aprivate::RawValue",
        "$serde_json::private::Numbe", "\\ud83d\\ude00$serde_json::private::Number"];
    let bodies: [&str; 44] = ["\"1\"", "\"-0\"", "\"1e5\"", "\"abc\"", "\"\"", "\"[1, 2]\"", "\" 1\"", "1", "null", "[\"1\"]", "\"1\",\"b\":2", "\"}{\"",
        "\"1e400\"", "\"1 \"", "\"01\"", "\"1.\"", "\"+1\"", "\"10\"", "\"-\"", "\"-x1\"", "\"1ex5\"", "\"1e\"", "\"1e+\"", "\"1e+x\"", "\"1.5e-3\"", "\"0.0\"",
        "\"-1.25E+7\"", "\"1\\n\"", "\"\\n1\"", "\"\\u0031\"", "\"1\\u0065\\u0035\"", "\"\\ud83d\\ude00\"", "\"\\ud800\"", "\"1\\x\"", "\"1\u{1}\"",
        "[ ]", "{}", "true", "false", "-1.5e3", "tru", "-", "\"1\" , \"b\" : 2", "\"1\" x"];
    for tok in toks.iter() {
        for body in bodies.iter() {
            let docs = [format!("{{\"{}\":{}}}", tok, body), format!(" {{ \"{}\" : {} }} ", tok, body), format!("[{{\"{}\":{}}}]", tok, body),
                        format!("{{\"a\":1,\"{}\":{}}}", tok, body), format!("{{\"k\":{{\"{}\":{}}}}}", tok, body),
                        format!("\n{{\n\"{}\"\n:\n{}\n}}\n", tok, body), format!("[1,\r\n {{\t\"{}\" :\n\n  {} \n}} ,2]", tok, body),
                        format!("{{\"{}\":{},\"{}\":{}}}", tok, body, tok, body), format!("{{\"{}\":{}}}{{\"{}\":{}}}", tok, body, tok, body),
                        format!("{{\"{}\":{} ,}}", tok, body), format!("{{\"{}\":{}]", tok, body), format!("{{\"{}\" {}}}", tok, body),
                        format!("{{\"{}\":{{\"{}\":{}}}}}", tok, tok, body)];
            for doc in docs.iter() { emit(sink, cfg, doc.as_bytes(), r, "private-token"); }
        }
    }
    // every truncation of the plain documents (and of the padded multi-line form): EOF classes in every phase
    for tok in [NUM, RAW, "\\u0024serde_json::private::Number"] {
        let quick_bodies: [&str; 9] = ["\"1\"", "\"1e5\"", "\"abc\"", "1", "-1.5", "null", "[ ]", "\"1\",\"b\":2", "\"\\u0031\""];
        let cut_bodies: &[&str] = if thorough { &bodies } else { &quick_bodies };
        for body in cut_bodies.iter() {
            for doc in [format!("{{\"{}\":{}}}", tok, body), format!("[ {{ \"{}\"\n : {}\n }} ]", tok, body)] {
                let b = doc.as_bytes();
                let lo = if thorough { 0 } else { doc.find(':').unwrap_or(0).saturating_sub(3) };
                for cut in lo..b.len() { emit(sink, cfg, &b[..cut], r, "private-token-cut"); }
            }
        }
    }
    // nesting: the token object is the d-th container (arrays / objects / mixed around it); depth limit at 128
    for d in [1usize, 2, 125, 126, 127, 128, 129] {
        for mix in 0..3 {
            let mut open = vec![]; let mut close = vec![];
            for i in 0..d - 1 {
                let obj = match mix { 0 => false, 1 => true, _ => i % 2 == 0 };
                if obj { open.extend_from_slice(b"{\"a\":"); close.insert(0, b'}'); } else { open.push(b'['); close.insert(0, b']'); }
            }
            for tok in [NUM, RAW] {
                for body in ["\"1\"", "\"x\"", "1", "[]", "\"1\",\"b\":[]"] {
                    let mut doc = open.clone(); doc.extend_from_slice(format!("{{\"{}\":{}}}", tok, body).as_bytes()); doc.extend_from_slice(&close);
                    emit(sink, cfg, &doc, r, "private-token-deep");
                }
            }
        }
    }
    // random recombination: token / ordinary keys, bodies, separators, whitespace
    let n = if thorough { 20000 } else { 1500 };
    let ws: [&str; 6] = ["", " ", "\n", "\r\n", "\t ", " \n\n "];
    for _ in 0..n {
        let mut doc = String::new();
        let arr = r.chance(1, 3);
        if arr { doc.push('['); doc.push_str(*r.pick(&ws)); }
        doc.push('{'); doc.push_str(*r.pick(&ws));
        let members = 1 + r.below(3);
        for m in 0..members {
            let key = if r.chance(2, 3) { *r.pick(&toks) } else { *r.pick(&["a", "", "$", "~"]) };
            doc.push('"'); doc.push_str(key); doc.push('"'); doc.push_str(*r.pick(&ws));
            doc.push(if r.chance(1, 30) { ' ' } else { ':' }); doc.push_str(*r.pick(&ws));
            doc.push_str(*r.pick(&bodies)); doc.push_str(*r.pick(&ws));
            if m + 1 < members || r.chance(1, 15) { doc.push(','); doc.push_str(*r.pick(&ws)); }
        }
        if !r.chance(1, 20) { doc.push('}'); }
        doc.push_str(*r.pick(&ws));
        if arr { if r.chance(1, 2) { doc.push_str(",2"); } doc.push(']'); }
        let mut b = doc.into_bytes();
        if r.chance(1, 6) { let k = r.below(b.len() + 1); b.truncate(k); }
        emit(sink, cfg, &b, r, "private-token-rand");
    }
}

/// JSON string literal (bytes) whose decoded content is `content`: `"`, `\` and control characters escaped; `style` 1 spells
/// every ASCII byte that is not alphanumeric as `\u00XX`, style 2 uses the short escapes and leaves the rest raw
fn json_lit(content: &[u8], style: u8) -> Vec<u8> {
    let mut o = vec![b'"'];
    for &c in content {
        match c {
            b'"' if style != 1 => o.extend_from_slice(b"\\\""),
            b'\\' if style != 1 => o.extend_from_slice(b"\\\\"),
            b'\n' if style != 1 => o.extend_from_slice(b"\\n"),
            b'\t' if style != 1 => o.extend_from_slice(b"\\t"),
            b'\r' if style != 1 => o.extend_from_slice(b"\\r"),
            c if c < 0x20 || (style == 1 && c < 0x80 && !c.is_ascii_alphanumeric()) => o.extend_from_slice(format!("\\u{:04x}", c).as_bytes()),
            c => o.push(c),
        }
    }
    o.push(b'"'); o
}

/// The RawValue token (`raw_value`): an object whose first key decodes to `raw::TOKEN` must hold ONE string, and the decoded
/// content of that string is parsed as a complete JSON text by a fresh `from_str` (fresh recursion budget, the token readings
/// apply again inside). String contents: JSON texts of every kind, whitespace-padded, multi-line, invalid, empty, truncated,
/// nested token objects of both kinds (well- and ill-shaped, doubly nested), escapes in the content, invalid UTF-8 and lone
/// surrogates, nesting 126..129 INSIDE the string (also below 126 outer containers); every document shape of `private_tokens`;
/// truncations; random recombination. Tags `raw-token`, `raw-token-cut`, `raw-token-deep`, `raw-token-rand`.
pub fn raw_tokens(sink: &mut Sink, cfg: &str, r: &mut Rng, thorough: bool) {
    const NUM: &str = "$serde_json::private::Number";
    const RAW: &str = "$serde_json::private::RawValue";
    let toks: [&str; 5] = [RAW, "\\u0024serde_json::private::RawValue", "$serde_json::private::\\u0052awValu\\u0065", NUM, "$serde_json::private::RawValu"];
    let rawobj = |content: &[u8]| -> Vec<u8> { let mut d = format!("{{\"{}\":", RAW).into_bytes(); d.extend(json_lit(content, 0)); d.push(b'}'); d };
    let numobj = |content: &[u8]| -> Vec<u8> { let mut d = format!("{{\"{}\":", NUM).into_bytes(); d.extend(json_lit(content, 0)); d.push(b'}'); d };
    let mut contents: Vec<Vec<u8>> = vec![];
    for c in ["1", "-0", "1.5e3", "1e400", "123456789012345678901234567890", "null", "true", "false", "\"s\"", "\"a\\\"b\\\\\"", "\"\\u00e9\\ud83d\\ude00\"", "[]", "[1,2]", "{}",
              "{\"a\":1}", "{\"a\":[1,{\"b\":null}],\"a\":2}", "{\"b\":1,\"a\":2}",
              " 1 ", "\n[1,\n2]\n", "\t{ \"a\" : 1 }\r\n", "  \"x\"  ",
              "abc", "1 2", "[1,]", "{\"a\"}", "{\"a\":1,}", "tru", "+1", "01", "\"abc", "[", "]", "1e", "-", "nul", "{\"a\":1}}", "[1]x", "1,", "{", "{\"a\":",
              "", " ", "\n", "\n\n  ", "[1,\n 2,\n x]", "\n\n\"a\nb\"", "[\"\\ud800\"]", "\"\\x\"", "1.", "-x", "1ex5",
              "{\"$serde_json::private::RawValue\":1}", "{\"$serde_json::private::RawValue\":[ ]}", "{\"$serde_json::private::RawValue\":\"1\",\"b\":2}",
              "{\"$serde_json::private::RawValue\":tru}", "{\"$serde_json::private::RawValue\":\"1\"", "{\"$serde_json::private::RawValue\" \"1\"}",
              "{\"$serde_json::private::Number\":1}", "{\"a\":1,\"$serde_json::private::RawValue\":\"x\"}"] {
        contents.push(c.as_bytes().to_vec());
    }
    // nested token objects of both kinds, one and two levels down, well- and ill-shaped, with newlines (inner line / column)
    for inner in ["1", "[1, 2]", "x", "", " {\"a\" : \"b\"} ", "\n\n1 x"] {
        contents.push(rawobj(inner.as_bytes()));
        contents.push(numobj(inner.as_bytes()));
        contents.push(rawobj(&rawobj(inner.as_bytes())));
        contents.push(rawobj(&numobj(inner.as_bytes())));
        let mut a = b"[\n".to_vec(); a.extend(rawobj(inner.as_bytes())); a.extend_from_slice(b",\n2]"); contents.push(a);
        let mut a = b"\n {\"k\":".to_vec(); a.extend(rawobj(&rawobj(inner.as_bytes()))); a.extend_from_slice(b"}"); contents.push(a);
    }
    contents.push(vec![b'"', 0xff, b'"']); contents.push(vec![0xc3, 0xa9]); contents.push(vec![b'"', 0xc3, 0xa9, b'"']); contents.push(vec![b'[', 0x01, b']']);
    let mut bodies: Vec<Vec<u8>> = vec![];
    for c in contents.iter() {
        bodies.push(json_lit(c, 0));
        if c.len() < 24 { bodies.push(json_lit(c, 1)); }
    }
    // the content held by a string literal that is itself not well-formed: invalid UTF-8 raw, lone surrogate, bad escape, control character
    for b in [&b"\"\xff\""[..], b"\"1\xc3\"", b"\"\\ud800\"", b"\"\\udc00x\"", b"\"1\\x\"", b"\"1\x011\"", b"\"\\ud83d\\ude00\"", b"\"[1,\\u00322]\"", b"\"\\\"\\\\u0031\\\"\""] {
        bodies.push(b.to_vec());
    }
    let cat = |parts: &[&[u8]]| -> Vec<u8> { parts.concat() };
    for tok in toks.iter() {
        let t = tok.as_bytes();
        for body in bodies.iter() {
            let docs: [Vec<u8>; 13] = [
                cat(&[b"{\"", t, b"\":", body, b"}"]), cat(&[b" { \"", t, b"\" : ", body, b" } "]), cat(&[b"[{\"", t, b"\":", body, b"}]"]),
                cat(&[b"{\"a\":1,\"", t, b"\":", body, b"}"]), cat(&[b"{\"k\":{\"", t, b"\":", body, b"}}"]),
                cat(&[b"\n{\n\"", t, b"\"\n:\n", body, b"\n}\n"]), cat(&[b"[1,\r\n {\t\"", t, b"\" :\n\n  ", body, b" \n} ,2]"]),
                cat(&[b"{\"", t, b"\":", body, b",\"", t, b"\":", body, b"}"]), cat(&[b"{\"", t, b"\":", body, b"}{\"", t, b"\":", body, b"}"]),
                cat(&[b"{\"", t, b"\":", body, b" ,}"]), cat(&[b"{\"", t, b"\":", body, b"]"]), cat(&[b"{\"", t, b"\" ", body, b"}"]),
                cat(&[b"{\"", t, b"\":", body, b" x"])];
            for doc in docs.iter() { emit(sink, cfg, doc, r, "raw-token"); }
        }
    }
    // every truncation of some documents: EOF classes in every phase, also inside the nested text's string
    let cut_contents: [&[u8]; 6] = [b"1", b"[1, 2]", b"x", b"{\"a\":\"b\"}", b"\n\ntru", b"{\"$serde_json::private::RawValue\":\"[]\"}"];
    for tok in [RAW, "\\u0024serde_json::private::RawValue"] {
        for c in cut_contents.iter() {
            for doc in [cat(&[b"{\"", tok.as_bytes(), b"\":", &json_lit(c, 0), b"}"]), cat(&[b"[ {\n\"", tok.as_bytes(), b"\"\n : ", &json_lit(c, 2), b"\n } ]"])] {
                let lo = if thorough { 0 } else { doc.iter().position(|&x| x == b':').unwrap_or(0).saturating_sub(3) };
                for cut in lo..doc.len() { emit(sink, cfg, &doc[..cut], r, "raw-token-cut"); }
            }
        }
    }
    // the nested `from_str` has its own recursion budget: `din` containers INSIDE the string, the token object being the
    // `dout`-th container of the document
    for dout in [1usize, 2, 100, 127, 128, 129] {
        for din in [1usize, 100, 126, 127, 128, 129] {
            for mix in 0..2 {
                let nest = |d: usize, inner: &[u8]| -> Vec<u8> {
                    let mut open = vec![]; let mut close = vec![];
                    for i in 0..d {
                        let obj = match mix { 0 => false, _ => i % 2 == 0 };
                        if obj { open.extend_from_slice(b"{\"a\":"); close.insert(0, b'}'); } else { open.push(b'['); close.insert(0, b']'); }
                    }
                    cat(&[&open, inner, &close])
                };
                for inner in [&b"1"[..], b"", b"{\"$serde_json::private::RawValue\":\"[[1]]\"}"] {
                    let content = nest(din, inner);
                    emit(sink, cfg, &nest(dout - 1, &rawobj(&content)), r, "raw-token-deep");
                    if dout <= 2 && din >= 126 { emit(sink, cfg, &nest(dout - 1, &rawobj(&rawobj(&content))), r, "raw-token-deep"); }
                }
            }
        }
    }
    // random recombination
    let n = if thorough { 20000 } else { 1500 };
    let ws: [&str; 6] = ["", " ", "\n", "\r\n", "\t ", " \n\n "];
    let plain: [&[u8]; 8] = [b"1", b"null", b"[ ]", b"{}", b"tru", b"-", b"\"1\" , \"b\" : 2", b"\"1\" x"];
    for _ in 0..n {
        let mut doc: Vec<u8> = vec![];
        let arr = r.chance(1, 3);
        if arr { doc.push(b'['); doc.extend_from_slice(r.pick(&ws).as_bytes()); }
        doc.push(b'{'); doc.extend_from_slice(r.pick(&ws).as_bytes());
        let members = 1 + r.below(3);
        for m in 0..members {
            let key = if r.chance(2, 3) { *r.pick(&toks) } else { *r.pick(&["a", "", "$", "~"]) };
            doc.push(b'"'); doc.extend_from_slice(key.as_bytes()); doc.push(b'"'); doc.extend_from_slice(r.pick(&ws).as_bytes());
            doc.push(if r.chance(1, 30) { b' ' } else { b':' }); doc.extend_from_slice(r.pick(&ws).as_bytes());
            if r.chance(1, 6) { let b: &[u8] = *r.pick(&plain[..]); doc.extend_from_slice(b); } else { let b: &Vec<u8> = r.pick(&bodies[..]); doc.extend_from_slice(b); }
            doc.extend_from_slice(r.pick(&ws).as_bytes());
            if m + 1 < members || r.chance(1, 15) { doc.push(b','); doc.extend_from_slice(r.pick(&ws).as_bytes()); }
        }
        if !r.chance(1, 20) { doc.push(b'}'); }
        doc.extend_from_slice(r.pick(&ws).as_bytes());
        if arr { if r.chance(1, 2) { doc.extend_from_slice(b",2"); } doc.push(b']'); }
        if r.chance(1, 6) { let k = r.below(doc.len() + 1); doc.truncate(k); }
        emit(sink, cfg, &doc, r, "raw-token-rand");
    }
}

/// decimal digit string of `n` digits, the first one non-zero
fn digs(r: &mut Rng, n: usize) -> String {
    let mut s = String::new();
    s.push((b'1' + r.below(9) as u8) as char);
    for _ in 1..n { s.push((b'0' + r.below(10) as u8) as char); }
    s
}

/// a number literal that does not fit the 64-bit fast path of `de.rs`: an integer part of 20 or more digits
/// (`parse_long_integer` under float_roundtrip), a fraction during which the significand overflows u64
/// (`parse_decimal_overflow`), with and without exponent; the scratch buffer of the Deserializer is used for all of them
fn long_number(r: &mut Rng) -> String {
    let s = match r.below(12) {
        0 => (*r.pick(&["18446744073709551616", "18446744073709551617", "99999999999999999999", "10000000000000000000000", "123456789012345678901",
                        "340282366920938463463374607431768211456", "18446744073709551615000", "100000000000000000000"])).to_string(),
        1 | 2 => { let n = 20 + r.below(22); digs(r, n) }
        3 => { let n = 20 + r.below(10); format!("{}e{}", digs(r, n), r.below(40) as i32 - 30) }
        4 => { let n = 20 + r.below(10); let m = 1 + r.below(12); format!("{}.{}", digs(r, n), digs(r, m)) }
        5 | 6 => { let n = 20 + r.below(14); format!("0.{}", digs(r, n)) }
        7 => { let z = r.below(6); let n = 20 + r.below(10); format!("0.{}{}", "0".repeat(z), digs(r, n)) }
        8 => { let k = 1 + r.below(19); let n = 20 + r.below(12); format!("{}.{}", digs(r, k), digs(r, n)) }
        9 => { let k = 1 + r.below(5); let n = 19 + r.below(12); format!("{}.{}E{}", digs(r, k), digs(r, n), r.below(60) as i32 - 30) }
        10 => (*r.pick(&["0.12345678901234567890123", "0.98765432109876543210987", "3.141592653589793238462643383279", "0.3000000000000000444089209850062616169452667236328125",
                         "1.00000000000000000000000000000000001", "9007199254740993.00000000000000000000001", "0.000000000000000000018446744073709551616"])).to_string(),
        _ => { let n = 20 + r.below(6); format!("{}.{}e-{}", digs(r, n), "0".repeat(1 + r.below(4)), r.below(25)) }
    };
    if r.chance(1, 4) { format!("-{}", s) } else { s }
}

fn short_number(r: &mut Rng) -> String {
    (*r.pick(&["0", "7", "-1", "1.5", "1e3", "18446744073709551615", "-9223372036854775808", "0.25", "12345678901234567", "-0.0", "1E-2", "9007199254740993"])).to_string()
}

/// C02 / C01 (tag `long-seq`): the value of a literal does not depend on what was parsed before it. Arrays, nested arrays and
/// object values holding 2–4 CONSECUTIVE long numbers (see `long_number`), mixed with short numbers and `null` / `true` /
/// `false` — no string in between, so nothing resets the Deserializer's scratch buffer —, and the same after a string with
/// an escape (which leaves its decoded bytes in the scratch buffer; the reader source copies every string there).
pub fn long_seq(sink: &mut Sink, cfg: &str, r: &mut Rng, thorough: bool) {
    // the fixed core: every ordered pair of kinds (long integer, long fraction, long integer with exponent, short)
    let kinds: [&str; 6] = ["18446744073709551616", "0.12345678901234567890123", "123456789012345678901e-3", "-340282366920938463463374607431768211456",
                            "3.141592653589793238462643383279", "7"];
    for a in kinds.iter() { for b in kinds.iter() {
        emit(sink, cfg, format!("[{},{}]", a, b).as_bytes(), r, "long-seq");
        let c = if a.contains('e') { a.to_string() } else { format!("{}e-3", a) };
        emit(sink, cfg, format!("[{}, null, [true, {}], 7, {}]", a, b, c).as_bytes(), r, "long-seq");
        emit(sink, cfg, format!("{{\"k\":[{} ,{}],\"m\":{}}}", a, b, b).as_bytes(), r, "long-seq");
        emit(sink, cfg, format!("[\"x\\n\",{},{}]", a, b).as_bytes(), r, "long-seq-str");
        emit(sink, cfg, format!("[\"x\",{}, {}]", a, b).as_bytes(), r, "long-seq-str");
    } }
    let n = if thorough { 4000 } else { 400 };
    let ws: [&str; 5] = ["", "", " ", "\n", " \t"];
    for i in 0..n {
        let k = 2 + r.below(3);
        let mut items: Vec<String> = vec![];
        for j in 0..k {
            // the first two items are long; short numbers / literals are interleaved
            if j < 2 || r.chance(2, 3) { items.push(long_number(r)); } else { items.push(short_number(r)); }
            if r.chance(1, 4) { items.push((*r.pick(&["null", "true", "false", "[]", "{}"])).to_string()); }
            if r.chance(1, 5) { items.push(short_number(r)); }
        }
        let after_string = i % 4 == 3;
        if after_string {
            let s = *r.pick(&["\"x\\n\"", "\"\\u0031\\u0032\"", "\"line\\nbreak\"", "\"42\"", "\"\\\"\"", "\"0.5\\t\"", "\"\u{e9}\""]);
            let at = r.below(2).min(items.len());
            items.insert(at, s.to_string());
        }
        let mut doc = String::new();
        match r.below(5) {
            0 | 1 => {
                doc.push('[');
                for (j, it) in items.iter().enumerate() { if j > 0 { doc.push(','); } doc.push_str(*r.pick(&ws)); doc.push_str(it); doc.push_str(*r.pick(&ws)); }
                doc.push(']');
            }
            2 => {
                // nested: every item but the first one level deeper than its predecessor, or in its own array
                doc.push('[');
                for (j, it) in items.iter().enumerate() {
                    if j > 0 { doc.push(','); }
                    match r.below(3) { 0 => doc.push_str(it), 1 => { doc.push('['); doc.push_str(it); doc.push(']'); } _ => { doc.push_str("[true, "); doc.push_str(it); doc.push_str(" ]"); } }
                }
                doc.push(']');
            }
            3 => {
                // one object member whose value is the array (keys are strings: only the array's items are consecutive)
                doc.push_str("{\"a\":1,\"k\":[");
                for (j, it) in items.iter().enumerate() { if j > 0 { doc.push_str(", "); } doc.push_str(it); }
                doc.push_str("]}");
            }
            _ => {
                doc.push_str("[[");
                for (j, it) in items.iter().enumerate() { if j > 0 { doc.push_str(if r.chance(1, 3) { "],[" } else { "," }); } doc.push_str(it); }
                doc.push_str("]]");
            }
        }
        emit(sink, cfg, doc.as_bytes(), r, if after_string { "long-seq-str" } else { "long-seq" });
    }
}

/// C01 / C02 (tag `long-nearmiss`): the number grammar on literals whose integer part has left (or is about to leave) the 64-bit fast
/// path of `de.rs` — 19, 20, 21, 25 and 40 digits, both sides of u64::MAX, with and without `-` (20 and more digits:
/// `parse_long_integer` / `parse_long_decimal` / `parse_long_exponent` under float_roundtrip, `parse_decimal_overflow` /
/// `parse_exponent_overflow` otherwise) — followed by every near-miss continuation of the grammar (`.` `.e2` `.E-3` `e` `e+` `.5e` `.-1` …:
/// a point without a fraction digit, an exponent marker without a digit, a sign in the wrong place, a second point / exponent) and by
/// the well-formed continuations next to them, at top level and inside arrays / objects.
pub fn long_nearmiss(sink: &mut Sink, cfg: &str, r: &mut Rng, thorough: bool, light: bool) {
    let mut ints: Vec<String> = vec![];
    for f in ["9999999999999999999", "1844674407370955161", "18446744073709551615", "18446744073709551616", "10000000000000000000", "99999999999999999999",
              "100000000000000000000", "184467440737095516150", "1000000000000000000000000", "1234567890123456789012345678901234567890"] { ints.push(f.to_string()); }
    for n in [19usize, 20, 21, 25, 40] { for _ in 0..(if thorough { 6 } else { 1 }) { ints.push(digs(r, n)); } }
    // continuations the grammar does not admit …
    let bad: [&str; 30] = [".", ".e2", ".E-3", "e", "e+", "e-", ".5e", ".5e+", ".5E-", ".-1", ".+1", ".e", ".E", "E", ".e+2", ".E+10", ".e-0", "..5", ".5.", ".5.5",
                           ".5e2.", ".5e2e2", "e2e2", "e.5", "e2.5", "e+-2", "e 2", ". 5", ".5e 2", "-"];
    // … and the ones it does (the accepted neighbours: the same paths must still accept these)
    let good: [&str; 12] = ["", ".5", "e2", ".5e2", "E-3", ".0E+0", ".25e-3", "e+2", ".5E2", "e0", ".000", "E+02"];
    let ctx: [(&str, &str); 10] = [("", ""), ("[", "]"), ("[1,", "]"), ("[", ",2]"), ("{\"a\":", "}"), ("{\"a\":", ",\"b\":0}"), (" ", " "), ("[[", "]]"),
                                   ("\n[\n", "\n]\n"), ("{\"k\":[0, ", " ]}")];
    for (k, i) in ints.iter().enumerate() {
        for sign in ["", "-"] {
            for (j, t) in bad.iter().chain(good.iter()).enumerate() {
                for (c, (pre, post)) in ctx.iter().enumerate() {
                    // quick tier: every literal bare and in two rotating contexts (one in configurations other than default / float_roundtrip)
                    if !thorough && c != 0 && c != 1 + (k + j) % 9 && (light || c != 1 + (k + 2 * j + 4) % 9) { continue; }
                    let doc = format!("{}{}{}{}{}", pre, sign, i, t, post);
                    emit(sink, cfg, doc.as_bytes(), r, if j < bad.len() { "long-nearmiss" } else { "long-nearmiss-ok" });
                }
            }
        }
    }
}

/// C11 / C09 (tag `long-err`): syntax errors inside numbers that have left the 64-bit fast path — an integer part of 19–30 digits
/// (20 and more: `parse_long_integer` / `parse_long_decimal` / `parse_long_exponent` under float_roundtrip) followed by
/// `.` / `.e` / `e` / `e+` / `e-` / `.5e` … and then a byte that is not a digit (or the end of input), inside arrays and objects, on
/// the first line and on later lines, with more bytes (also a newline) after the offending byte.
pub fn long_err(sink: &mut Sink, cfg: &str, r: &mut Rng, thorough: bool) {
    let ints: [&str; 9] = ["18446744073709551616", "99999999999999999999", "-123456789012345678901234567890", "1844674407370955161", "18446744073709551615",
                           "100000000000000000000", "-18446744073709551616", "12345678901234567890123", "7"];
    let mids: [&str; 12] = [".", ".e", "e", "e+", "e-", ".5e", ".5e+", ".5E-", "E", ".E5", ".-", ".12345678901234567890e"];
    let tails: [&str; 14] = ["x", "]", ",", "}", " ", "\n", "\"", "e", ".", "-", "+", "", "\r\n", "\u{e9}"];
    let mut docs: Vec<String> = vec![];
    for i in ints.iter() { for m in mids.iter() { for t in tails.iter() {
        let n = format!("{}{}{}", i, m, t);
        docs.push(n.clone());
        docs.push(format!("[{}]", n));
        docs.push(format!("[1,\n {},\n 3]", n));
        docs.push(format!("{{\"n\": {}, \"m\": 0}}", n));
        docs.push(format!("[\n{}\n]", n));
        docs.push(format!("[{}]\n", n));
        docs.push(format!("\n\n{{\"a\":[{}", n));
    } } }
    // quick tier: every document with a 20+ digit integer part and the two-byte mids, a third of the rest
    for (k, d) in docs.iter().enumerate() {
        if thorough || k % 3 == 0 || r.chance(1, 6) { emit(sink, cfg, d.as_bytes(), r, "long-err"); }
    }
    for _ in 0..(if thorough { 3000 } else { 300 }) {
        let n = 19 + r.below(14);
        let mut s = String::new();
        for _ in 0..r.below(3) { s.push_str(*r.pick(&["\n", " ", "[", "[1,", "{\"a\":", "\r\n", "[\"s\",\n"])); }
        if r.chance(1, 4) { s.push('-'); }
        s.push_str(&digs(r, n));
        s.push_str(*r.pick(&mids));
        s.push_str(*r.pick(&tails));
        for _ in 0..r.below(3) { s.push_str(*r.pick(&["\n", " ", "]", ",2]", "}", "x", "\n\n"])); }
        emit(sink, cfg, s.as_bytes(), r, "long-err-rand");
    }
}

/// C11 / C09 / C14 (tag `depth-lines`): where the nesting-limit error is reported. Nests of 127 / 128 / 129 / 140 containers — arrays only, objects only,
/// alternating (either kind outermost), arrays with a BRACE as 128th opener, objects with a BRACKET as 128th opener — with every kind of gap
/// (none, newline, blank, CR LF, newline + blanks; inside objects also before the key, the colon and the value) between the levels, so that line AND
/// column of the 128th opening bracket both matter; complete documents, unclosed ones, and cut directly after the 128th opener (it is the last
/// byte) and one byte later.
pub fn depth_lines(sink: &mut Sink, cfg: &str, r: &mut Rng, thorough: bool) {
    let seps: [&str; 5] = ["", "\n", " ", "\r\n", "\n  "];
    for d in [127usize, 128, 129, 140] {
        for mix in 0..6 {
            for (si, sep) in seps.iter().enumerate() {
                for rep in 0..(if thorough { 3 } else { 1 }) {
                    let mut open: Vec<u8> = vec![]; let mut close: Vec<u8> = vec![];
                    let mut at128: Option<usize> = None;
                    for i in 0..d {
                        let obj = match mix { 0 => false, 1 => true, 2 => i % 2 == 1, 3 => i % 2 == 0, 4 => i == 127, _ => i != 127 };
                        if i > 0 { open.extend_from_slice(sep.as_bytes()); }
                        if i == 127 { at128 = Some(open.len()); }
                        if obj {
                            // gaps inside the object follow the level separator; with `rep` > 0 they are drawn at random
                            let g = |r: &mut Rng| -> &str { if rep == 0 { if si % 2 == 1 { *sep } else { "" } } else { *r.pick(&seps) } };
                            open.push(b'{'); open.extend_from_slice(g(r).as_bytes()); open.extend_from_slice(b"\"a\""); open.extend_from_slice(g(r).as_bytes());
                            open.push(b':');
                            close.insert(0, b'}');
                        } else { open.push(b'['); close.insert(0, b']'); }
                    }
                    let inner: &[u8] = *r.pick(&[&b"1"[..], b"", b"[]", b"{}", b"\n1\n", b"\"]\""]);
                    let mut full = open.clone(); full.extend_from_slice(sep.as_bytes()); full.extend_from_slice(inner); full.extend_from_slice(&close);
                    emit(sink, cfg, &full, r, "depth-lines");
                    emit(sink, cfg, &open, r, "depth-lines-open");
                    if let Some(k) = at128 {
                        emit(sink, cfg, &open[..k + 1], r, "depth-lines-cut");
                        if k + 2 <= open.len() { emit(sink, cfg, &open[..k + 2], r, "depth-lines-cut"); }
                    }
                }
            }
        }
    }
    // string literals holding brackets / escaped quotes before the deep part, and a first member before the nested one
    for pre in ["[\"[[[{{\",", "{\"[\":\"\\\"{\",\n\"b\":", "[\"\\\\\",\n", "[[],{},[[]],\n"] {
        for k in [126usize, 127, 128] {
            for brace in [false, true] {
                let mut doc = pre.as_bytes().to_vec();
                for i in 0..k { if brace && i + 1 == k { doc.extend_from_slice(b"\n {\"k\":"); } else { doc.push(b'['); } }
                emit(sink, cfg, &doc, r, "depth-lines-str");
                doc.extend_from_slice(b"1");
                emit(sink, cfg, &doc, r, "depth-lines-str");
            }
        }
    }
}

/// C14 (tag `exp-edge`): explicit exponents within a few units of ±i32::MAX (beyond that `parse_exponent_overflow` takes over)
/// combined with an implicit exponent of the same sign — fraction digits with a negative exponent, more integer digits than fit
/// a u64 with a positive one —, so that `starting_exp ± exp` leaves the i32 range unless the arithmetic saturates.
pub fn exp_edge(sink: &mut Sink, cfg: &str, r: &mut Rng, thorough: bool) {
    let mants: [&str; 16] = ["0.01", "0.001", "-0.001", "123.456", "0.00", "1.25", "0.1", "1", "0", "1.5", "100000000000000000000", "-100000000000000000000",
                             "1234567890123456789012345", "0.00001", "100000", "123456789012345678901234567890.5"];
    for m in mants.iter() {
        for sign in ["-", "", "+"] {
            for e in [2147483640i64, 2147483645, 2147483646, 2147483647, 2147483648, 2147483649, 4294967295, 4294967296, 9999999999] {
                let lit = format!("{}{}{}{}", m, if e % 2 == 0 { "e" } else { "E" }, sign, e);
                let doc = match (e as usize + m.len()) % 4 { 0 => lit.clone(), 1 => format!("[{}]", lit), 2 => format!("{{\"k\": {}}}", lit), _ => format!("[1, {} ,2]", lit) };
                emit(sink, cfg, doc.as_bytes(), r, "exp-edge");
            }
        }
    }
    for _ in 0..(if thorough { 2000 } else { 200 }) {
        let mut lit = String::new();
        if r.chance(1, 3) { lit.push('-'); }
        let n = 1 + r.below(26);
        if r.chance(1, 3) { lit.push('0'); } else { lit.push_str(&digs(r, n)); }
        if r.chance(2, 3) { lit.push('.'); let z = r.below(4); lit.push_str(&"0".repeat(z)); let m = 1 + r.below(22); lit.push_str(&digs(r, m)); }
        lit.push(*r.pick(&['e', 'E']));
        lit.push_str(*r.pick(&["-", "-", "", "+"]));
        lit.push_str(&(2147483647i64 - 4 + r.below(8) as i64).to_string());
        let doc = match r.below(4) { 0 => lit.clone(), 1 => format!("[{}]", lit), 2 => format!("{{\"k\": {}}}", lit), _ => format!("[1, {} ,2]", lit) };
        emit(sink, cfg, doc.as_bytes(), r, "exp-edge-rand");
    }
}

pub fn run(sink: &mut Sink, prop: &str, thorough: bool, seed: u64) {
    let mut r = Rng::new(seed);
    let cfg = cfg_tag();
    // quick tier of C01 under float_roundtrip: every number family in full, the generic families (strings, three-token sequences, documents) subsampled
    let fr_light = prop == "C01" && !thorough && cfg!(feature = "fr");
    if prop == "C14" {
        big(sink, &cfg);
        typed_depth(sink, &cfg, &mut r);
        #[cfg(feature = "ud")]
        unbounded(sink, &cfg);
        // random bytes
        for _ in 0..(if thorough { 200000 } else { 20000 }) {
            let n = r.below(24);
            let b: Vec<u8> = (0..n).map(|_| if r.chance(3, 4) { *r.pick(b"[]{},:\"\\u0123456789aeE+-.ntfls \n") } else { r.next() as u8 }).collect();
            emit(sink, &cfg, &b, &mut r, "rand");
        }
    }
    if prop == "C05" || prop == "C14" || prop == "C02" || prop == "C01" {
        if !fr_light { strings(sink, &cfg, &mut r, thorough); }
        if prop == "C05" { return; }
    }
    if prop == "C09" || prop == "C11" {
        // multi-line documents and their mutations, several chunkings each
        for _ in 0..(if thorough { 20000 } else { 2000 }) {
            let mut d = gen_doc(&mut r, 3);
            for b in d.iter_mut() { if *b == b' ' && r.chance(1, 2) { *b = b'\n'; } }
            emit(sink, &cfg, &d, &mut r, "mldoc");
            for _ in 0..4 { let m = mutate(&d, &mut r); emit(sink, &cfg, &m, &mut r, "mlmut"); }
        }
    }
    // the private tokens through which Number (arbitrary_precision) and RawValue (raw_value) travel inside serde's data
    // model are ordinary JSON object keys as far as RFC 8259 is concerned: objects whose FIRST key decodes to one of them
    // (C09, thorough tier: the same inputs with the full outcome - message, category, line, column, three sources - compared)
    if (prop == "C01" || prop == "C02" || (prop == "C09" && thorough)) && (cfg!(feature = "ap") || cfg!(feature = "rv")) {
        private_tokens(sink, &cfg, &mut r, thorough);
    }
    if (prop == "C01" || prop == "C02" || (prop == "C09" && thorough)) && cfg!(feature = "rv") {
        raw_tokens(sink, &cfg, &mut r, thorough);
    }
    if fr_light { range_band_n(sink, &cfg, &mut r, 60); } else if prop == "C01" || prop == "C02" { range_band(sink, &cfg, &mut r, thorough); }
    if prop == "C01" || prop == "C02" || prop == "C14" { long_seq(sink, &cfg, &mut r, thorough); }
    if prop == "C01" || prop == "C02" { long_nearmiss(sink, &cfg, &mut r, thorough, !thorough && (cfg!(feature = "ap") || cfg!(feature = "rv"))); }
    if prop == "C11" || prop == "C09" { long_err(sink, &cfg, &mut r, thorough); }
    if prop == "C11" || prop == "C09" || prop == "C14" { depth_lines(sink, &cfg, &mut r, thorough); }
    if prop == "C14" { exp_edge(sink, &cfg, &mut r, thorough); }
    let toks = tokens();
    let n = if thorough { 4 } else { 3 };
    emit(sink, &cfg, b"", &mut r, "exh0");
    for len in 1..=n {
        // length n in the thorough tier is sampled 1/4 to bound the run time; lower lengths are complete
        let (shard, nshards) = if thorough && len == 4 { ((seed % 4) as usize, 4) } else if fr_light && len == 3 { ((seed % 8) as usize, 8) } else { (0, 1) };
        let mut inputs: Vec<Vec<u8>> = vec![];
        exhaustive(&toks, len, shard, nshards, |b| inputs.push(b.to_vec()));
        for b in inputs { emit(sink, &cfg, &b, &mut r, &format!("exh{}", len)); }
    }
    // every byte value in every lexical position (whitespace slots, inside strings, inside numbers, after escapes)
    for b in 0..=255u8 {
        let pats: [Vec<u8>; 10] = [vec![b], vec![b, b'1'], vec![b'1', b], [b"[1,".as_ref(), &[b], b"2]"].concat(), [b"{\"a\"".as_ref(), &[b], b":1}"].concat(),
            [b"\"".as_ref(), &[b], b"\""].concat(), [b"\"\\".as_ref(), &[b], b"\""].concat(), [b"1".as_ref(), &[b], b"5"].concat(), [b"[".as_ref(), &[b], b"]"].concat(),
            [b"\"\\u00".as_ref(), &[b], b"0\""].concat()];
        for p in pats.iter() { emit(sink, &cfg, p, &mut r, "byte"); }
    }
    depth_profiles(sink, &cfg, &mut r);
    let docs = if thorough { 30000 } else if fr_light { 1000 } else { 3000 };
    for _ in 0..docs {
        let d = gen_doc(&mut r, 3);
        emit(sink, &cfg, &d, &mut r, "doc");
        for _ in 0..3 { let m = mutate(&d, &mut r); emit(sink, &cfg, &m, &mut r, "mut"); }
    }
}
