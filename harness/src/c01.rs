//! C01 (and shared with C02/C09–C11/C14): parse every input into Value and IgnoredAny from all sources.
use crate::common::*;
use crate::gen::*;
use crate::obs::*;

fn classify(o: &str) -> &'static str {
    // tag from the slice outcome (middle field)
    let m = o.split('|').nth(1).unwrap_or("");
    if m.starts_with('V') || m == "U" { "ok" } else if m.contains(":eof:") { "err-eof" } else if m == "PANIC" { "panic" } else { "err-syntax" }
}

pub fn emit(sink: &mut Sink, cfg: &str, b: &[u8], r: &mut Rng, tag: &str) {
    let h = hexf(b);
    let sizes = chunk_sizes(r);
    let ov = value_all(b, sizes.clone());
    let t = format!("{}:value:{}", tag, classify(&ov));
    sink.case("pv", &[cfg, &h], &ov, &t, b.len() > 1);
    let oi = ignored_all(b, sizes);
    let t = format!("{}:ignored:{}", tag, classify(&oi));
    sink.case("pi", &[cfg, &h], &oi, &t, b.len() > 1);
}

pub fn replay(sink: &mut Sink, toks: &[&str]) {
    if toks.len() < 3 { return; }
    let b = unhex(toks[2]);
    let cfg = cfg_tag();
    let o = if toks[0] == "pv" { value_all(&b, vec![1]) } else { ignored_all(&b, vec![1]) };
    sink.case(toks[0], &[&cfg, toks[2]], &o, "replay", true);
}

pub fn depth_profiles(sink: &mut Sink, cfg: &str, r: &mut Rng) {
    for d in [1usize, 2, 126, 127, 128, 129, 130] {
        for mix in 0..4 {
            let mut open = vec![]; let mut close = vec![];
            for i in 0..d {
                let obj = match mix { 0 => false, 1 => true, 2 => i % 2 == 0, _ => r.chance(1, 2) };
                if obj { open.extend_from_slice(b"{\"a\":"); close.insert(0, b'}'); } else { open.push(b'['); close.insert(0, b']'); }
            }
            for inner in [&b"1"[..], b"", b"[]", b"{}"] {
                let mut doc = open.clone(); doc.extend_from_slice(inner); doc.extend_from_slice(&close);
                emit(sink, cfg, &doc, r, "depth");
            }
        }
    }
}

pub fn run(sink: &mut Sink, thorough: bool, seed: u64) {
    let mut r = Rng::new(seed);
    let cfg = cfg_tag();
    let toks = tokens();
    let n = if thorough { 4 } else { 3 };
    emit(sink, &cfg, b"", &mut r, "exh0");
    for len in 1..=n {
        // length n in the thorough tier is sampled 1/4 to bound the run time; lower lengths are complete
        let (shard, nshards) = if thorough && len == 4 { ((seed % 4) as usize, 4) } else { (0, 1) };
        let mut inputs: Vec<Vec<u8>> = vec![];
        exhaustive(&toks, len, shard, nshards, |b| inputs.push(b.to_vec()));
        for b in inputs { emit(sink, &cfg, &b, &mut r, &format!("exh{}", len)); }
    }
    depth_profiles(sink, &cfg, &mut r);
    let docs = if thorough { 30000 } else { 3000 };
    for _ in 0..docs {
        let d = gen_doc(&mut r, 3);
        emit(sink, &cfg, &d, &mut r, "doc");
        for _ in 0..3 { let m = mutate(&d, &mut r); emit(sink, &cfg, &m, &mut r, "mut"); }
    }
}
