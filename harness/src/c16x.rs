//! C16, targets outside the schema universe of `schema.rs` (found by line coverage of value/de.rs and de.rs: map keys read through
//! `deserialize_option` / `deserialize_newtype_struct` / `deserialize_enum`, `Number` and `Map<String, Value>` as targets,
//! `IgnoredAny` from a `Value`, borrowed `&str` / `Cow<str>`, tuple structs). No Lean model: the property's own statement — the owned
//! `Value`, the borrowed `&Value` and the text deserializer agree — is evaluated on the crate's three results (op `c16x`).
use crate::common::*;
use crate::obs::*;
use serde::de::IgnoredAny;
use serde::Deserialize;
use serde_json::{json, Map, Number, Value};
use std::borrow::Cow;
use std::collections::BTreeMap;

#[derive(Deserialize, Debug, PartialEq, Eq, PartialOrd, Ord)]
struct KStr(String);
#[derive(Deserialize, Debug, PartialEq, Eq, PartialOrd, Ord)]
struct KInt(i16);
#[derive(Deserialize, Debug, PartialEq, Eq, PartialOrd, Ord)]
struct KBool(bool);
#[derive(Deserialize, Debug, PartialEq, Eq, PartialOrd, Ord)]
enum KEnum { A, B, #[serde(rename = "1")] One }
#[derive(Deserialize, Debug, PartialEq)]
struct TS(i8, String, Option<bool>);
#[derive(Deserialize, Debug, PartialEq)]
struct Unit;
#[derive(Deserialize, Debug, PartialEq)]
struct WithNumber { n: Number, m: Map<String, Value>, #[serde(default)] skip: Option<IgnoredAnyBox> }
#[derive(Deserialize, Debug)]
struct IgnoredAnyBox(#[allow(dead_code)] IgnoredAny);
impl PartialEq for IgnoredAnyBox { fn eq(&self, _: &Self) -> bool { true } }
#[derive(Deserialize, Debug, PartialEq)]
struct Borrowing<'a> { #[serde(borrow)] c: Cow<'a, str>, s: String }

fn three<'v, T: Deserialize<'v> + std::fmt::Debug>(v: &'v Value, text: &'v str) -> String {
    let show = |r: Result<T, serde_json::Error>| match r { Ok(x) => format!("OK:{}", hexf(format!("{:?}", x).as_bytes())), Err(_) => "ERR".to_string() };
    // T::deserialize(owned Value) is what from_value does, without its DeserializeOwned bound
    let owned = std::panic::catch_unwind(std::panic::AssertUnwindSafe(|| show(T::deserialize(v.clone())))).unwrap_or("PANIC".into());
    let borrowed = std::panic::catch_unwind(std::panic::AssertUnwindSafe(|| show(T::deserialize(v)))).unwrap_or("PANIC".into());
    let txt = std::panic::catch_unwind(std::panic::AssertUnwindSafe(|| show(serde_json::from_str::<T>(text)))).unwrap_or("PANIC".into());
    format!("{}|{}|{}", owned, borrowed, txt)
}

const TYPES: &[&str] = &["map-optkey", "map-newtype-str", "map-newtype-int", "map-newtype-bool", "map-enumkey", "map-unitkey", "number", "jsonmap", "ignored", "cowstr", "boxstr",
                         "tuplestruct", "unitstruct", "withnumber", "borrowing", "value", "opt-number", "vec-number", "charkeymap", "i128", "map-byteskey", "map-valkey-enum"];

fn run_type(ty: &str, v: &Value, text: &str) -> String {
    match ty {
        "map-optkey" => three::<BTreeMap<Option<String>, i32>>(v, text),
        "map-newtype-str" => three::<BTreeMap<KStr, bool>>(v, text),
        "map-newtype-int" => three::<BTreeMap<KInt, bool>>(v, text),
        "map-newtype-bool" => three::<BTreeMap<KBool, u8>>(v, text),
        "map-enumkey" => three::<BTreeMap<KEnum, u8>>(v, text),
        "map-unitkey" => three::<BTreeMap<(), u8>>(v, text),
        "number" => three::<Number>(v, text),
        "jsonmap" => three::<Map<String, Value>>(v, text),
        "ignored" => three::<IgnoredAnyBox>(v, text),
        "cowstr" => three::<Cow<str>>(v, text),
        "boxstr" => three::<Box<str>>(v, text),
        "tuplestruct" => three::<TS>(v, text),
        "unitstruct" => three::<Unit>(v, text),
        "withnumber" => three::<WithNumber>(v, text),
        "borrowing" => three::<Borrowing>(v, text),
        "value" => three::<Value>(v, text),
        "opt-number" => three::<Option<Number>>(v, text),
        "vec-number" => three::<Vec<Number>>(v, text),
        "charkeymap" => three::<BTreeMap<char, Option<()>>>(v, text),
        "i128" => three::<(i128, u128)>(v, text),
        "map-byteskey" => three::<BTreeMap<serde_bytes::ByteBuf, u8>>(v, text),
        "map-valkey-enum" => three::<BTreeMap<String, KEnum>>(v, text),
        _ => "?".into(),
    }
}

fn pool(r: &mut Rng) -> Vec<Value> {
    let mut v = vec![
        json!({}), json!({"a": 1}), json!({"null": 1, "": 2, "A": 3}), json!({"A": 1, "B": 2, "1": 3}), json!({"C": 1}), json!({"1": true, "-7": false, "32768": true}),
        json!({"true": 1, "false": 0}), json!({"True": 1}), json!({"x": true}), json!({"ab": null, "é": null, "\u{1F600}": null}), json!({"a": "b"}),
        json!(null), json!(true), json!(0), json!(-1), json!(255), json!(18446744073709551615u64), json!(-9223372036854775808i64), json!(1.5), json!(1e300), json!("x"), json!(""), json!("a\"b\\c\n"),
        json!([]), json!([1, "s", true]), json!([1, "s", null]), json!([1, "s"]), json!([1, "s", true, 4]), json!([-129, "s", false]), json!([1]), json!([1, 2]), json!([[1], [2]]),
        json!({"n": 1, "m": {}}), json!({"n": 1.25, "m": {"k": [1, {"z": null}]}, "skip": [1, 2, {"q": "r"}]}), json!({"n": "1", "m": {}}), json!({"n": 1, "m": []}), json!({"m": {}, "n": 7, "extra": 1}),
        json!({"c": "x", "s": "y"}), json!({"c": "esc\"aped", "s": ""}), json!({"c": 1, "s": "y"}), json!({"c": "x"}),
        json!([170141183460469231731687303715884105727i128 as f64, 1]), json!([0, 0]), json!([-1, 1]), json!([1, -1]),
    ];
    for _ in 0..40 { v.push(gen_value(r, 2)); }
    v
}

/// objects keyed by the PRIVATE TOKENS through which `Number` (arbitrary_precision) and `RawValue` (raw_value) travel through
/// serde's data model: `{"$serde_json::private::Number": payload}` alone, with a second key after / before it, inside an array,
/// as a struct field of type `Value` / `Number` / `Map`. The `Value` is built by `Map::insert` (no deserializer involved), so it
/// really is an object; what the three deserializers make of it must still be the same thing.
#[cfg(any(feature = "ap", feature = "rv"))]
fn token_values() -> Vec<Value> {
    let mut toks: Vec<&str> = vec![];
    if cfg!(feature = "ap") { toks.push("$serde_json::private::Number"); }
    if cfg!(feature = "rv") { toks.push("$serde_json::private::RawValue"); }
    let payloads = [json!("123"), json!("abc"), json!(5), json!(null), json!("-1.5e300"), json!("18446744073709551616"), json!("0.25"), json!("-0"), json!("1e5"),
                    json!(" 1"), json!("1 "), json!(""), json!("[1"), json!("[1, 2]"), json!("{\"a\":1}"), json!("\"s\""), json!("true"), json!(["1"]), json!({"a": "1"}), json!(true)];
    let obj = |ps: &[(&str, Value)]| { let mut m = Map::new(); for (k, v) in ps { m.insert(k.to_string(), v.clone()); } Value::Object(m) };
    let mut out = vec![];
    for t in toks {
        for p in payloads.iter() {
            let one = obj(&[(t, p.clone())]);
            out.push(one.clone());
            out.push(obj(&[(t, p.clone()), ("~", json!(null))]));                  // a second key after the token
            out.push(obj(&[("!", json!(1)), (t, p.clone())]));                     // the token is not the first key
            out.push(Value::Array(vec![json!(null), one.clone()]));
            out.push(Value::Array(vec![one.clone(), json!(7), one.clone()]));
            out.push(obj(&[("n", one.clone()), ("m", obj(&[("k", one.clone())]))]));           // `WithNumber { n: Number, m: Map }`
            out.push(obj(&[("n", json!(1)), ("m", one.clone()), ("skip", one.clone())]));
            out.push(obj(&[("id", json!(7)), ("payload", one.clone())]));
            out.push(obj(&[(t, one.clone())]));                                    // the payload is itself a token object
        }
    }
    out
}
#[cfg(any(feature = "ap", feature = "rv"))]
const TOKEN_TYPES: &[&str] = &["value", "jsonmap", "vec-number", "withnumber", "number", "opt-number", "ignored", "map-valkey-enum"];

/// a value that (mostly) fits the target type, with near misses: keys in alternative spellings, values of the neighbouring kind
fn fit(ty: &str, r: &mut Rng) -> Value {
    let obj = |r: &mut Rng, keys: &[&str], val: &dyn Fn(&mut Rng) -> Value| { let mut m = Map::new(); for _ in 0..r.below(4) { m.insert(r.pick(keys).to_string(), val(r)); } Value::Object(m) };
    let small = |r: &mut Rng| -> Value { match r.below(8) { 0 => json!(-1), 1 => json!(256), 2 => json!(null), 3 => json!(1.0), _ => json!(r.below(200)) } };
    let boolish = |r: &mut Rng| -> Value { match r.below(6) { 0 => json!(1), 1 => json!("true"), _ => json!(r.chance(1, 2)) } };
    let num = |r: &mut Rng| -> Value { match r.below(7) { 0 => json!(r.next()), 1 => json!(-(r.below(1 << 40) as i64)), 2 => json!(r.below(1000) as f64 / 8.0), 3 => json!("1"), 4 => json!(null), _ => json!(r.below(100)) } };
    match ty {
        "map-optkey" => obj(r, &["", "null", "a", "None", "Some", "b\"c", "é"], &|r| small(r)),
        "map-newtype-str" => obj(r, &["", "a", "KStr", "0", "ß"], &|r| boolish(r)),
        "map-newtype-int" => obj(r, &["0", "-1", "32767", "32768", "-32768", "-32769", "01", "1.0", "1e2", " 1", "a", "", "+1", "-0"], &|r| boolish(r)),
        "map-newtype-bool" => obj(r, &["true", "false", "True", "1", "", "tru", "truee"], &|r| small(r)),
        "map-enumkey" => obj(r, &["A", "B", "1", "C", "a", "", "One"], &|r| small(r)),
        "map-byteskey" => obj(r, &["", "ab", "é", "\u{0}z"], &|r| small(r)),
        "map-valkey-enum" => obj(r, &["x", "y"], &|r| match r.below(6) { 0 => json!("A"), 1 => json!("B"), 2 => json!("1"), 3 => json!({"A": null}), 4 => json!({"B": 1}), _ => json!("C") }),
        "map-unitkey" => obj(r, &["null", "", "()", "unit"], &|r| small(r)),
        "charkeymap" => obj(r, &["a", "é", "\u{1F600}", "", "ab", "\u{0}"], &|r| if r.chance(1, 3) { json!(null) } else if r.chance(1, 2) { json!(()) } else { json!(0) }),
        "number" | "opt-number" => num(r),
        "vec-number" => Value::Array((0..r.below(4)).map(|_| num(r)).collect()),
        "jsonmap" | "value" | "ignored" => gen_value(r, 3),
        "cowstr" | "boxstr" => if r.chance(1, 5) { num(r) } else { Value::String(gen_string(r)) },
        "tuplestruct" => { let mut a = vec![small(r), if r.chance(1, 6) { json!(1) } else { Value::String(gen_string(r)) }, if r.chance(1, 3) { json!(null) } else { boolish(r) }]; if r.chance(1, 6) { a.pop(); } if r.chance(1, 8) { a.push(json!(0)); } Value::Array(a) }
        "unitstruct" => match r.below(4) { 0 => json!(null), 1 => json!([]), 2 => json!({}), _ => json!(()) },
        "withnumber" => { let mut m = Map::new(); if !r.chance(1, 8) { m.insert("n".into(), num(r)); } if !r.chance(1, 8) { m.insert("m".into(), if r.chance(1, 6) { json!([]) } else { obj(r, &["k", "", "z"], &|r| gen_value(r, 1)) }); }
                          if r.chance(1, 2) { m.insert("skip".into(), gen_value(r, 2)); } if r.chance(1, 5) { m.insert("other".into(), json!(1)); } Value::Object(m) }
        "borrowing" => { let mut m = Map::new(); m.insert("c".into(), if r.chance(1, 6) { json!(1) } else { Value::String(gen_string(r)) }); if !r.chance(1, 6) { m.insert("s".into(), Value::String(gen_string(r))); } Value::Object(m) }
        "i128" => json!([if r.chance(1, 2) { json!(-(r.next() as i64 as i128 as f64)) } else { json!(r.next() as i64) }, if r.chance(1, 4) { json!(-1) } else { json!(r.next()) }]),
        _ => gen_value(r, 2),
    }
}

pub fn run(sink: &mut Sink, thorough: bool, seed: u64) {
    let mut r = Rng::new(seed ^ 0xc16c_16c1);
    let cfg = cfg_tag();
    let rounds = if thorough { 8 } else { 1 };
    for _ in 0..rounds {
        for v in pool(&mut r) {
            let text = serde_json::to_string(&v).unwrap();
            for ty in TYPES {
                let o = run_type(ty, &v, &text);
                let class = if o.contains("PANIC") { "panic" } else if o.starts_with("OK") { "ok" } else { "err" };
                sink.case("c16x", &[&cfg, ty, &enc(&v)], &o, &format!("c16x:{}:{}", ty, class), true);
            }
        }
        // nesting at the text parser's recursion limit: from_value has no such limit (127 levels: all agree)
        for depth in [126usize, 127, 128, 129, 200] {
            for kind in 0..3 {
                let mut v = json!(1);
                for i in 0..depth { v = if kind == 0 || (kind == 2 && i % 2 == 0) { Value::Array(vec![v]) } else { let mut m = Map::new(); m.insert("k".into(), v); Value::Object(m) }; }
                let text = serde_json::to_string(&v).unwrap();
                for ty in ["value", "ignored", "jsonmap"] {
                    let o = run_type(ty, &v, &text);
                    sink.case("c16x", &[&cfg, ty, &enc(&v)], &o, &format!("c16x:{}:deep{}", ty, depth), true);
                }
            }
        }
        #[cfg(any(feature = "ap", feature = "rv"))]
        for v in token_values() {
            let text = serde_json::to_string(&v).unwrap();
            for ty in TOKEN_TYPES {
                let o = run_type(ty, &v, &text);
                let class = if o.contains("PANIC") { "panic" } else if o.starts_with("OK") { "ok" } else { "err" };
                sink.case("c16x", &[&cfg, ty, &enc(&v)], &o, &format!("c16x:{}:token:{}", ty, class), true);
            }
        }
        for ty in TYPES {
            for _ in 0..60 {
                let v = fit(ty, &mut r);
                let text = serde_json::to_string(&v).unwrap();
                let o = run_type(ty, &v, &text);
                let class = if o.contains("PANIC") { "panic" } else if o.starts_with("OK") { "ok" } else { "err" };
                sink.case("c16x", &[&cfg, ty, &enc(&v)], &o, &format!("c16x:{}:fit:{}", ty, class), true);
            }
        }
    }
}

pub fn replay(sink: &mut Sink, toks: &[&str]) {
    if toks.len() >= 4 {
        let v = dec_value(toks[3]);
        let text = serde_json::to_string(&v).unwrap();
        let o = run_type(toks[2], &v, &text);
        sink.case("c16x", &[&cfg_tag(), toks[2], &enc(&v)], &o, "replay", true);
    }
}
