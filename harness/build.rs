//! Build script of the harness: makes the crate-private `src/lexical/*` of the serde_json tree under check
//! compilable inside the harness (the trick of `/repo/tests/lexical.rs`: `#[path = "../src/lexical/mod.rs"] mod lexical;`).
//!
//! The tree is the one this manifest's `serde_json = { path = … }` dependency names, so `VERIF_REPO` (whose
//! manifest `./check` rewrites) is honoured without an environment variable. Two include files are written to
//! `OUT_DIR`:
//!
//! * `lexreal.rs`  — `#[path = "<tree>/src/lexical/mod.rs"] pub mod lexical;`: the sources exactly as they are
//!   (reachable: what is `pub(crate)`, i.e. the trait `Math`, `Limb`, `nonzero`);
//! * `lexopen.rs`  — the same module tree copied to `OUT_DIR/lexopen/` with *visibility keywords only* changed
//!   (`mod scalar/small/large` of math.rs, its private `fn`s, `parse_mantissa`/`large_atof`/`small_atof` of
//!   bhcomp.rs, `mod bhcomp`/`mod bignum` of mod.rs become `pub`), so that every function of `math.rs` can be called
//!   on arbitrary operands. Every substitution must match exactly once, otherwise the build fails.
//!
//! The limb-width cfg is computed as serde_json's own `build.rs` does.
use std::{env, fs, path::{Path, PathBuf}};

fn main() {
    let mdir = PathBuf::from(env::var("CARGO_MANIFEST_DIR").unwrap());
    let manifest = fs::read_to_string(mdir.join("Cargo.toml")).expect("read Cargo.toml");
    let repo = manifest
        .lines()
        .find(|l| l.trim_start().starts_with("serde_json") && l.contains("path"))
        .and_then(|l| l.split("path").nth(1))
        .and_then(|r| r.split('"').nth(1))
        .expect("serde_json = { path = \"…\" } not found in Cargo.toml")
        .to_string();
    let lex = Path::new(&repo).join("src").join("lexical");
    println!("cargo:rerun-if-changed={}", lex.display());
    println!("cargo:rerun-if-changed={}", mdir.join("Cargo.toml").display());

    // as /repo/build.rs
    println!("cargo:rustc-check-cfg=cfg(fast_arithmetic, values(\"32\", \"64\"))");
    let arch = env::var("CARGO_CFG_TARGET_ARCH").unwrap();
    let pw = env::var("CARGO_CFG_TARGET_POINTER_WIDTH").unwrap();
    let wide = ["aarch64", "loongarch64", "mips64", "powerpc64", "wasm32", "x86_64"].contains(&arch.as_str()) || pw == "64";
    println!("cargo:rustc-cfg=fast_arithmetic=\"{}\"", if wide { "64" } else { "32" });

    let out = PathBuf::from(env::var("OUT_DIR").unwrap());
    fs::write(out.join("lexreal.rs"), format!("#[path = {:?}]\npub mod lexical;\n", lex.join("mod.rs").display().to_string())).unwrap();

    let open = out.join("lexopen");
    let _ = fs::remove_dir_all(&open);
    fs::create_dir_all(&open).unwrap();
    for e in fs::read_dir(&lex).expect("read src/lexical") {
        let p = e.unwrap().path();
        if p.extension().map_or(true, |x| x != "rs") { continue; }
        let name = p.file_name().unwrap().to_str().unwrap().to_string();
        let mut t = fs::read_to_string(&p).unwrap();
        let subs: &[(&str, &str)] = match name.as_str() {
            "math.rs" => &[
                ("\nmod scalar {", "\npub mod scalar {"),
                ("\nmod small {", "\npub mod small {"),
                ("\nmod large {", "\npub mod large {"),
                ("\n    fn long_mul(", "\n    pub fn long_mul("),
                ("\n    fn karatsuba_mul(", "\n    pub fn karatsuba_mul("),
                ("\n    fn karatsuba_uneven_mul(", "\n    pub fn karatsuba_uneven_mul("),
                ("\n    fn karatsuba_mul_fwd(", "\n    pub fn karatsuba_mul_fwd("),
                ("\nfn u64_to_hi64_1(", "\npub fn u64_to_hi64_1("),
                ("\nfn u64_to_hi64_2(", "\npub fn u64_to_hi64_2("),
                ("\ntrait Hi64<T>", "\npub trait Hi64<T>"),
            ],
            "bhcomp.rs" => &[
                ("\nfn parse_mantissa<F>(", "\npub(crate) fn parse_mantissa<F>("),
                ("\nfn large_atof<F>(", "\npub(crate) fn large_atof<F>("),
                ("\nfn small_atof<F>(", "\npub(crate) fn small_atof<F>("),
            ],
            "mod.rs" => &[("\nmod bhcomp;", "\npub(crate) mod bhcomp;"), ("\nmod bignum;", "\npub(crate) mod bignum;")],
            _ => &[],
        };
        for (from, to) in subs {
            let n = t.matches(from).count();
            if n != 1 { panic!("lexopen: `{}` occurs {} times in {} (expected once)", from.trim(), n, name); }
            t = t.replacen(from, to, 1);
        }
        fs::write(open.join(&name), t).unwrap();
    }
    fs::write(out.join("lexopen.rs"), format!("#[path = {:?}]\npub mod lexical;\n", open.join("mod.rs").display().to_string())).unwrap();
}
