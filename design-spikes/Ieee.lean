/-! Spike: round-to-nearest-even of a positive rational num/den to binary64 bits, on Nat only;
    then check a table of 1e0..1e308 by `decide +kernel`. -/
namespace Ieee

/-- floor(log2 (num/den)) for num,den>0, via bit lengths and one correction. -/
def ilog2q (num den : Nat) : Int :=
  let e : Int := (Nat.log2 num : Int) - (Nat.log2 den : Int)
  -- candidate e or e-1
  let ge (e : Int) : Bool := if e ≥ 0 then num ≥ den * 2 ^ e.toNat else num * 2 ^ (-e).toNat ≥ den
  if ge e then e else e - 1

/-- round half to even of num/den -/
def rne (num den : Nat) : Nat :=
  let q := num / den
  let r := num % den
  if 2 * r < den then q else if 2 * r > den then q + 1 else if q % 2 == 0 then q else q + 1

/-- bits of the nearest binary64 to num/den (num,den>0); none on overflow. -/
def roundNE64 (num den : Nat) : Option UInt64 :=
  let e := ilog2q num den                 -- 2^e ≤ x < 2^(e+1)
  let e' : Int := if e < -1022 then -1022 else e   -- subnormal clamp
  -- significand m = rne (x / 2^(e'-52))
  let sh : Int := e' - 52
  let m := if sh ≥ 0 then rne num (den * 2 ^ sh.toNat) else rne (num * 2 ^ (-sh).toNat) den
  -- m may reach 2^53 -> renormalise
  let (m, e') := if m == 2 ^ 53 then (2 ^ 52, e' + 1) else (m, e')
  if e' > 1023 then none
  else if m < 2 ^ 52 then some (UInt64.ofNat m)    -- subnormal (or zero)
  else some (UInt64.ofNat (((e' + 1023).toNat) * 2 ^ 52 + (m - 2 ^ 52)))

#eval roundNE64 1 10      -- 0x3FB999999999999A
#eval (0.1 : Float).toBits
#eval roundNE64 (10^308) 1
#eval (1e308 : Float).toBits
#eval roundNE64 5 (10^324)
#eval (5e-324 : Float).toBits
#eval roundNE64 (10^309) 1

/-- table as produced by a translator: decimal exponent ↦ expected bits computed independently (here via Float for the spike) -/
def tab : List UInt64 := (List.range 309).map fun i => (Float.ofScientific 1 false i).toBits
def check : Bool := (List.range 309).all fun i => roundNE64 (10^i) 1 == some ((List.range 309).map (fun i => (Float.ofScientific 1 false i).toBits))[i]!
#eval check
end Ieee
