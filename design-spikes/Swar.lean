import Std.Tactic.BVDecide

/-- SWAR chunk test exactly as src/read.rs skip_to_escape (64-bit). -/
def ONE : BitVec 64 := 0x0101010101010101#64

def masked (chars : BitVec 64) : BitVec 64 :=
  let contains_ctrl := (chars - ONE * 0x20#64) &&& ~~~chars
  let chars_quote := chars ^^^ (ONE * 0x22#64)
  let contains_quote := (chars_quote - ONE) &&& ~~~chars_quote
  let chars_backslash := chars ^^^ (ONE * 0x5c#64)
  let contains_backslash := (chars_backslash - ONE) &&& ~~~chars_backslash
  (contains_ctrl ||| contains_quote ||| contains_backslash) &&& (ONE <<< 7)

def isEsc (b : BitVec 8) : Bool := b == 0x22#8 || b == 0x5c#8 || b < 0x20#8

def byteAt (c : BitVec 64) (i : Nat) : BitVec 8 := (c >>> (8*i)).setWidth 8

theorem masked_zero_iff (c : BitVec 64) :
    masked c = 0#64 ↔ (isEsc (byteAt c 0) = false ∧ isEsc (byteAt c 1) = false ∧ isEsc (byteAt c 2) = false ∧ isEsc (byteAt c 3) = false ∧
      isEsc (byteAt c 4) = false ∧ isEsc (byteAt c 5) = false ∧ isEsc (byteAt c 6) = false ∧ isEsc (byteAt c 7) = false) := by
  unfold masked isEsc byteAt ONE
  bv_decide

/-- lowest set bit of masked is bit 7 of the first escape byte: for byte 0. -/
theorem first0 (c : BitVec 64) (h : isEsc (byteAt c 0) = true) : (masked c) &&& 0xff#64 = 0x80#64 := by
  unfold masked isEsc byteAt ONE at *
  bv_decide

theorem first3 (c : BitVec 64) (h0 : isEsc (byteAt c 0) = false) (h1 : isEsc (byteAt c 1) = false) (h2 : isEsc (byteAt c 2) = false)
   (h : isEsc (byteAt c 3) = true) : (masked c) &&& 0xffffffff#64 = 0x80000000#64 := by
  unfold masked isEsc byteAt ONE at *
  bv_decide

#print axioms masked_zero_iff
