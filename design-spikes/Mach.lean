/-! Spike: byte-step machine for mini-JSON (null | number | [v,*]) with ws; generic fold lemmas;
    C10-style theorem reduced to a finite analysis of `finish`. -/
namespace Mach

inductive Code | eofValue | eofList | expectedIdent | expectedValue | trailingComma | commaOrEnd
  | trailingChars | invalidNumber | recursion
deriving DecidableEq, Repr

inductive Cat | eof | syntax deriving DecidableEq, Repr

def classify : Code → Cat
  | .eofValue | .eofList => .eof
  | _ => .syntax

inductive V | null | num (n : Nat) | arr (xs : List V) deriving Repr

/-- what the machine is doing right now -/
inductive Mode
  | val (first : Bool)          -- expecting a value (first: `]` also allowed - first slot of an array)
  | valAfterComma               -- expecting a value, `]` is a trailing comma
  | lit (rest : List UInt8)     -- inside `null`
  | zero                        -- read a leading `0`
  | digits (n : Nat)            -- read 1-9 digit*
  | after                       -- a value is complete in the current frame
  | done (v : V)                -- top-level value complete, only ws may follow
deriving Repr

structure St where
  mode : Mode
  stack : List (List V)         -- open arrays, innermost first (elements reversed)
  top : Option V := none
deriving Repr

inductive Step
  | next (s : St)               -- byte consumed
  | again (s : St)              -- byte not consumed (number ended): re-dispatch
  | err (c : Code)              -- error at this byte (position includes it)
deriving Repr

def isWs (b : UInt8) : Bool := b == 0x20 || b == 0x0a || b == 0x09 || b == 0x0d
def isDigit (b : UInt8) : Bool := 0x30 ≤ b && b ≤ 0x39

def complete (s : St) (v : V) : St :=
  match s.stack with
  | [] => { mode := .done v, stack := [] }
  | f :: fs => { mode := .after, stack := (v :: f) :: fs }

def startValue (s : St) (b : UInt8) : Step :=
  if b == 0x6e then .next { s with mode := .lit [0x75, 0x6c, 0x6c] }
  else if b == 0x30 then .next { s with mode := .zero }
  else if isDigit b then .next { s with mode := .digits (b.toNat - 0x30) }
  else if b == 0x5b then
    if s.stack.length ≥ 127 then .err .recursion
    else .next { mode := .val true, stack := [] :: s.stack }
  else .err .expectedValue

def closeArr (s : St) : Step :=
  match s.stack with
  | [] => .err .expectedValue      -- unreachable by invariant; kept total
  | f :: fs => .next (complete { s with stack := fs } (.arr f.reverse))

def step1 (s : St) (b : UInt8) : Step :=
  match s.mode with
  | .val first =>
    if isWs b then .next s
    else if first && b == 0x5d && !s.stack.isEmpty then closeArr s
    else startValue s b
  | .valAfterComma =>
    if isWs b then .next s
    else if b == 0x5d then .err .trailingComma
    else startValue s b
  | .lit [] => .err .expectedIdent
  | .lit (e :: es) =>
    if b == e then (if es.isEmpty then .next (complete s .null) else .next { s with mode := .lit es })
    else .err .expectedIdent
  | .zero => if isDigit b then .err .invalidNumber else .again (complete s (.num 0))
  | .digits n => if isDigit b then .next { s with mode := .digits (n * 10 + (b.toNat - 0x30)) }
                 else .again (complete s (.num n))
  | .after =>
    if isWs b then .next s
    else if b == 0x2c then .next { s with mode := .valAfterComma }
    else if b == 0x5d then closeArr s
    else .err .commaOrEnd
  | .done _ => if isWs b then .next s else .err .trailingChars

/-- one input byte: at most one `again`. -/
def step (s : St) (b : UInt8) : Except Code St :=
  match step1 s b with
  | .next s' => .ok s'
  | .err c => .error c
  | .again s' =>
    match step1 s' b with
    | .next s'' => .ok s''
    | .err c => .error c
    | .again _ => .error .expectedValue   -- proved unreachable below

inductive Outcome | ok (v : V) | err (c : Code) (idx : Nat) deriving Repr

def finish (s : St) : Except Code V :=
  match s.mode with
  | .done v => .ok v
  | .val _ | .valAfterComma => if s.stack.isEmpty then .error .eofValue else
      (match s.mode with | .val true => .error .eofList | _ => .error .eofValue)
  | .lit _ => .error .eofValue
  | .zero => (match s.stack with | [] => .ok (.num 0) | _ => .error .eofList)
  | .digits n => (match s.stack with | [] => .ok (.num n) | _ => .error .eofList)
  | .after => .error .eofList

/-- run from state `s` over `bs`; `i` counts consumed bytes. -/
def run (s : St) (i : Nat) : List UInt8 → Outcome
  | [] => match finish s with | .ok v => .ok v | .error c => .err c i
  | b :: bs => match step s b with
    | .ok s' => run s' (i+1) bs
    | .error c => .err c (i+1)

def init : St := { mode := .val false, stack := [] }
def parseTop (bs : List UInt8) : Outcome := run init 0 bs

/-- states after a prefix, or the error that stopped the machine -/
def feed (s : St) (i : Nat) : List UInt8 → Except (Code × Nat) (St × Nat)
  | [] => .ok (s, i)
  | b :: bs => match step s b with
    | .ok s' => feed s' (i+1) bs
    | .error c => .error (c, i+1)

theorem run_append (s : St) (i : Nat) (xs ys : List UInt8) :
    run s i (xs ++ ys) = match feed s i xs with
      | .ok (s', j) => run s' j ys
      | .error (c, j) => .err c j := by
  induction xs generalizing s i with
  | nil => simp [feed]
  | cons b bs ih =>
    simp only [List.cons_append, run, feed]
    cases step s b with
    | ok s' => simpa using ih s' (i+1)
    | error c => rfl

theorem feed_idx (s : St) (i : Nat) (xs : List UInt8) (s' : St) (j : Nat) (h : feed s i xs = .ok (s', j)) :
    j = i + xs.length := by
  induction xs generalizing s i with
  | nil => simp [feed] at h; simp [h.2]
  | cons b bs ih =>
    simp only [feed] at h
    cases hs : step s b with
    | ok s'' => rw [hs] at h; have := ih _ _ h; simp only [List.length_cons]; omega
    | error c => rw [hs] at h; cases h

/-- finite analysis: at EOF the machine returns a value or an Eof-classified error. -/
theorem finish_eof_clean (s : St) : ∀ c, finish s = .error c → classify c = .eof := by
  intro c h
  unfold finish at h
  split at h <;> (try split at h) <;> (try split at h) <;> (try cases h) <;> simp_all [classify] <;>
    (try (subst_vars; rfl))

/-- C10 for the mini language: if the whole text parses, every prefix parses or fails with an
    Eof-classified error positioned at the end of the prefix. -/
theorem c10_mini (bs : List UInt8) (k : Nat) (v : V) (h : parseTop bs = .ok v) :
    (∃ v', parseTop (bs.take k) = .ok v') ∨
    (∃ c, parseTop (bs.take k) = .err c (bs.take k).length ∧ classify c = .eof) := by
  have hsplit : bs = bs.take k ++ bs.drop k := (List.take_append_drop k bs).symm
  unfold parseTop at *
  rw [hsplit, run_append] at h
  have hp := run_append init 0 (bs.take k) []
  simp only [List.append_nil] at hp
  cases hf : feed init 0 (bs.take k) with
  | error e => rw [hf] at h; cases h
  | ok p =>
    obtain ⟨s', j⟩ := p
    rw [hf] at hp
    have hj := feed_idx _ _ _ _ _ hf
    simp only [run] at hp
    cases hfin : finish s' with
    | ok v' => left; exact ⟨v', by rw [hp, hfin]⟩
    | error c =>
      right; refine ⟨c, ?_, finish_eof_clean s' c hfin⟩
      rw [hp, hfin]; simp [hj]

#eval parseTop "[1, [null,20] ,0]".toUTF8.toList
#eval parseTop "[1, [null,20] ,".toUTF8.toList
#eval parseTop "[1,]".toUTF8.toList
#eval parseTop "01".toUTF8.toList
#print axioms c10_mini
end Mach
